# C11 - corrupt or hostile bytecode files fail cleanly.
import glob
import io
import json
import os
import re
import struct
import sys
import time

from gen.canon import hx, unhx
from vlib import common

ID = "C11"
LEVEL = "fault_enumeration"
TECHNIQUE = ("exhaustive single-fault enumeration: from each valid base file (one per bytecode family) every prefix, every "
             "single-byte substitution over a fault alphabet, every deletion, every insertion over an alphabet, every 32-bit "
             "overwrite with adversarial lengths, and all 65536 magics; each loaded by the real load_module under audit "
             "hooks, a watchdog and a memory watermark, in crash-isolated child processes")
TEXT = ("Every single-fault deviation of the base files within the stated alphabets is executed (not sampled). The invariant "
        "checked on each: load_module returns its 7-tuple or raises ImportError, nothing else escapes, the call finishes "
        "within the watchdog, memory stays under the watermark, and the interpreter audit log of the call contains no "
        "exec/import/compile of anything derived from the file and no write to the filesystem; a child that dies is a "
        "violation attributed to the exact input.")
NOTE = ("Trusted: CPython's audit events (PEP 578) as the observation of exec/import/compile/open; the watchdog (SIGALRM, 2 s; a load slower than 1 s is reported as 'slow') "
        "and ru_maxrss watermark (256 MB). Multi-fault inputs and files larger than ~1 KB are outside the bound; asymptotic "
        "blow-ups on large hostile files are out of reach (DESIGN 2.5).")
RULE = ("case = one mutated byte string of one base file (fault families: prefix, subst, delete, insert, overwrite32, magic16, "
        "text/empty); distinct = distinct byte strings per base; all are executed")
ASSUMPTIONS = ["audit hooks see every compile/exec/import/open the interpreter performs",
               "on error paths load_module calls traceback.print_exc(), which opens and compiles lines of xdis's own and "
               "stdlib sources: those events are whitelisted by path/source, never by event kind"]
TYPECODES = b"0NFT.Silfgxysuta AzZ()[]{}<>cCrR?".replace(b" ", b"")
INSERTS = [0x00, 0xFF] + list(b"(rRsc{")
OVER32 = [0xFFFFFFFF, 0x7FFFFFFF, 0x80000000, 0x00010000]


def bounds(tier):
    return {"subst_alphabet": "0x00,0xFF,b^0x80,b^1,all marshal type codes (+FLAG_REF forms)" if tier == "quick" else "all 255 other values",
            "insert_alphabet": INSERTS, "overwrite32": OVER32, "magic16": 65536, "max_base_len": 700 if tier == "quick" else 1500}


SECONDARY_KINDS = ("hostblock",)


def hosts(tier):
    return common.HOSTS


def workers_for_host(tier, host):
    return 10 if host == common.PRIMARY else 2


def prepare(tier):
    return {"progs": common.datasets("progs", common.REFS, 1), "headers": common.datasets("headers", ["3.8", "3.12"]), "tier": tier}


def base_files(plan, tier):
    """[(name, bytes)] one small valid file per family"""
    out = []
    for v in common.REFS:
        for idx, rec in common.read_dataset(plan["progs"][v]):
            if idx >= 0 and rec["id"] == "const_text_latin1@module":
                out.append(("farm-%s" % v, unhx(rec["pyc"])))
                break
    for v, p in sorted(plan["headers"].items()):
        for idx, rec in common.read_dataset(p):
            if idx >= 0 and rec["id"] == "real:CHECKED_HASH":
                out.append(("hash-%s" % v, unhx(rec["pyc"])))
    lim = 700 if tier == "quick" else 1500
    for d in sorted(glob.glob(os.path.join(common.REPO, "test", "bytecode_*"))):
        fam = os.path.basename(d)[9:]
        if fam in ("2.7", "3.6", "3.7", "3.8", "3.9", "3.10", "3.11", "3.12") and tier == "quick":
            continue
        fs = sorted((os.path.getsize(f), f) for f in glob.glob(os.path.join(d, "*.pyc")))
        fs = [(s, f) for s, f in fs if 60 <= s <= lim]
        if fs:
            with open(fs[0][1], "rb") as f:
                out.append(("corpus-%s" % fam, f.read()))
    return out


def deep_inputs(bases):
    """(family, [file bytes]): the header of one file per reference version followed by a chain of N nested containers"""
    hdrs = []
    for name, data in bases:
        if name.startswith("farm-"):
            v = common.vt(name[5:])
            n = 8 if v < (3, 3) else (12 if v < (3, 7) else 16)
            hdrs.append((name[5:], data[:n]))
    for nm, unit, tail in (("tuple", b"(\x01\x00\x00\x00", b"N"), ("small-tuple", b")\x01", b"N"), ("list", b"[\x01\x00\x00\x00", b"N"),
                           ("dict-key", b"{", b"N"), ("dict-value", b"{N", b"N"), ("set", b"<\x01\x00\x00\x00", b"N"),
                           ("frozenset", b">\x01\x00\x00\x00", b"N"), ("ref-tuple", b"\xa8\x01\x00\x00\x00", b"N")):
        out = []
        for v, h in hdrs:
            for depth in (100, 400, 700, 1500, 6000):
                out.append(h + unit * depth + tail)
                out.append(h + unit * depth)    # and cut off at the deepest point
        yield "deep-" + nm, out


def hostile_length_inputs(bases):
    """(family, [file bytes]): every length-carrying type code with a hostile length field, alone and as the first thing
    inside a dict / tuple / list, under the header of every reference version and under the Dropbox 2.5 magic (whose files
    go through a different reader, xdis.marsh's)"""
    hdrs = [("dropbox", struct.pack("<H", 62135) + b"\r\n" + b"\0\0\0\0")]
    for name, data in bases:
        if name.startswith("farm-"):
            v = common.vt(name[5:])
            n = 8 if v < (3, 3) else (12 if v < (3, 7) else 16)
            hdrs.append((name[5:], data[:n]))
    lens = [-1, -5, -2 ** 31, 2 ** 31 - 1, 2 ** 16]
    out = []
    for hv, h in hdrs:
        for code in b"stuaA([<>lR":
            for ln in lens:
                body = bytes(bytearray([code])) + struct.pack("<i", ln) + b"0" * 40
                for wrap in (b"", b"{", b"(\x02\x00\x00\x00", b"[\x02\x00\x00\x00", b"{N"):
                    out.append(h + wrap + body)
        for code in b"zZ)":
            for ln in (0, 255):
                out.append(h + b"{" + bytes(bytearray([code, ln])) + b"0" * 40)
    for i in range(0, len(out), 400):
        yield "hostile-length", out[i:i + 400]


def faults(name, data, tier):
    """yield (family, mutated bytes)"""
    n = len(data)
    for k in range(0, n + 1):
        yield "prefix", data[:k]
    for i in range(n):
        b = data[i]
        if tier == "thorough":
            vals = [x for x in range(256) if x != b]
        else:
            vals = set([0x00, 0xFF, b ^ 0x80, b ^ 1]) | set(TYPECODES) | set(t | 0x80 for t in TYPECODES[:12])
            if i < 2:
                vals |= set(range(0, 256, 5))  # walk the magic over known / interim / unknown values
            vals.discard(b)
            vals = sorted(vals)
        for x in vals:
            yield "subst", data[:i] + bytes([x]) + data[i + 1:]
    for i in range(n):
        yield "delete", data[:i] + data[i + 1:]
    for i in range(n + 1):
        for x in INSERTS:
            yield "insert", data[:i] + bytes([x]) + data[i:]
    for i in range(0, n - 3):
        for w in OVER32:
            yield "overwrite32", data[:i] + struct.pack("<I", w) + data[i + 4:]


def cases(plan, tier, shard, nshards, host):
    bases = base_files(plan, tier)
    # one case = one (base, family) block of up to 400 faults, so that crash isolation and sharding stay cheap
    k = 0
    for name, data in bases:
        block, fam0 = [], None
        for fam, mut in faults(name, data, tier):
            if fam != fam0 or len(block) >= 400:
                if block:
                    k += 1
                    if k % nshards == shard:
                        yield {"kind": "block", "base": name, "family": fam0, "inputs": [hx(b) for b in block]}
                block, fam0 = [], fam
            block.append(mut)
        if block:
            k += 1
            if k % nshards == shard:
                yield {"kind": "block", "base": name, "family": fam0, "inputs": [hx(b) for b in block]}
    for lo in range(0, 65536, 2048):
        k += 1
        if k % nshards == shard:
            yield {"kind": "magic16", "lo": lo, "hi": lo + 2048}
    # every host: hostile nesting depth (the pure-Python reader recurses; what it does at the recursion limit, and how the
    # error is reported, differs between host versions) and the single faults of the host's *own* version (native path)
    for fam, inputs in list(deep_inputs(bases)) + list(hostile_length_inputs(bases)):
        k += 1
        if k % nshards == shard:
            yield {"kind": "hostblock", "base": "deep", "family": fam, "inputs": [hx(b) for b in inputs]}
    if host != common.PRIMARY:
        for name, data in bases:
            if name != "farm-%s" % host:
                continue
            block = []
            for fam, mut in faults(name, data, "quick"):
                block.append(mut)
                if len(block) >= 400:
                    k += 1
                    if k % nshards == shard:
                        yield {"kind": "hostblock", "base": name, "family": "native-of-host", "inputs": [hx(b) for b in block]}
                    block = []
            if block:
                k += 1
                if k % nshards == shard:
                    yield {"kind": "hostblock", "base": name, "family": "native-of-host", "inputs": [hx(b) for b in block]}
    k += 1
    if k % nshards == shard:
        yield {"kind": "hostblock", "base": "text", "family": "not-bytecode",
               "inputs": [hx(b"") , hx(b"\n"), hx(b"print('hello')\n" * 5), hx(b"#!/usr/bin/python\nimport os\nos.system('true')\n" + b"#" * 60),
                          hx(b"\x00" * 64), hx(b"\xff" * 64), hx(b"PK\x03\x04" + b"\0" * 60), hx(b"\x7fELF" + b"\0" * 60)]}


def case_key(c):
    if c["kind"] == "magic16":
        return "magic16:%d" % c["lo"]
    return "%s:%s:%s" % (c["base"], c["family"], c["inputs"][0][:40] + str(len(c["inputs"])))


def describe(c):
    if c["kind"] == "magic16":
        return c
    return {"base": c["base"], "family": c["family"], "n_inputs": len(c["inputs"]), "first_input_hex": c["inputs"][0][:80]}


def canary_cases(plan, tier, host):
    yield {"kind": "canary"}


# ------------------------------------------------------------------ monitored single load (runs in the child)
WATCHDOG_S = 2.0
_EVENTS = []
_ARMED = [False]
_HOOKED = [False]


def _hook(event, args):
    if not _ARMED[0]:
        return
    if event in ("open", "compile", "exec", "import", "os.system", "subprocess.Popen", "os.remove", "os.rename", "os.unlink",
                 "os.mkdir", "os.rmdir", "shutil.rmtree", "os.exec", "os.posix_spawn", "os.fork", "marshal.loads", "os.truncate",
                 "os.chmod", "os.symlink", "os.link") or event.startswith("socket."):
        try:
            if event == "open":
                _EVENTS.append((event, str(args[0]), str(args[1]), int(args[2]) if args[2] is not None else 0))
            elif event == "compile":
                src = args[0]
                if isinstance(src, (bytes, bytearray)):
                    src = bytes(src).decode("utf-8", "replace")
                _EVENTS.append((event, None if src is None else str(src)[:400], str(args[1])))
            elif event == "exec":
                co = args[0]
                _EVENTS.append((event, getattr(co, "co_filename", "?"), getattr(co, "co_name", "?")))
            elif event == "import":
                _EVENTS.append((event, str(args[0]), str(args[1])))
            else:
                _EVENTS.append((event, repr(args)[:200]))
        except Exception as e:  # never let the monitor itself fail silently
            _EVENTS.append(("hook-error", repr(e)))


_ALLOWED_ROOTS = []
_SRC_CACHE = {}


def _under_allowed(path):
    if path is None:
        return False
    p = os.path.realpath(path) if not path.startswith("<frozen") else path
    return path.startswith("<frozen") or any(p.startswith(r) for r in _ALLOWED_ROOTS)


def judge_events(events, scratch, data):
    """list of (signature, message) for audit events that violate the property"""
    bad = []
    for ev in events:
        kind = ev[0]
        if kind == "open":
            _, path, mode, flags = ev
            wr = any(c in (mode or "") for c in "wax+") or (flags & (os.O_WRONLY | os.O_RDWR | os.O_CREAT | os.O_APPEND | os.O_TRUNC))
            if wr:
                bad.append(("audit:open-for-write", "open(%r, %r, %#x)" % (path, mode, flags)))
        elif kind == "compile":
            _, src, fname = ev
            # traceback/linecache compile snippets of xdis's or the stdlib's own source lines
            if src is None:
                if not _under_allowed(fname):
                    bad.append(("audit:compile", "compile of AST for %r" % fname))
                continue
            ok = False
            if len(src) < 400:
                key = re.sub(r"\s+", "", src)
                if key.startswith("(") and key.endswith(")"):
                    key = key[1:-1]
                for root_file in _SRC_CACHE.values():
                    if key in root_file:
                        ok = True
                        break
            if not ok:
                bad.append(("audit:compile", "compile(%r..., %r)" % (src[:60], fname)))
        elif kind == "exec":
            _, fname, name = ev
            if not _under_allowed(fname):
                bad.append(("audit:exec", "exec of code object %s from %r" % (name, fname)))
        elif kind == "import":
            _, mod, fname = ev
            top = mod.split(".")[0]
            if top not in sys.stdlib_module_names and top != "xdis" and not top.startswith("_"):
                bad.append(("audit:import", "import %s (%s)" % (mod, fname)))
        elif kind == "marshal.loads":
            pass
        elif kind == "hook-error":
            bad.append(("audit:hook-error", ev[1]))
        else:
            bad.append(("audit:%s" % kind, repr(ev[1:])[:200]))
    return bad


def _innermost_xdis_frame(tb):
    where = "?"
    while tb is not None:
        f = tb.tb_frame.f_code
        if "/xdis/" in f.co_filename:
            where = "%s:%s" % (os.path.basename(f.co_filename), f.co_name)
        tb = tb.tb_next
    return where


class _Timeout(BaseException):
    pass


def _alarm(signum, frame):
    raise _Timeout()


_REAL_PRINT_EXC = []
_USE_REAL_PRINT_EXC = [False]
_INNER = []


def _recording_print_exc(*a, **k):
    """records which exception load_module is about to convert to ImportError; the real traceback.print_exc
    (slow: it re-reads and re-parses source files) runs for the whole 'prefix' family only"""
    et, ev, tb = sys.exc_info()
    _INNER.append((et.__name__ if et else None, _innermost_xdis_frame(tb)))
    if _USE_REAL_PRINT_EXC[0]:
        return _REAL_PRINT_EXC[0](*a, **k)


def monitored_load(data, scratch, via_path, real_traceback=False):
    """returns dict(outcome, exc, where, wall, events)"""
    import resource
    import signal

    from xdis.load import load_module, load_module_from_file_object

    if not _HOOKED[0]:
        sys.addaudithook(_hook)
        _HOOKED[0] = True
        import xdis

        _ALLOWED_ROOTS.extend([os.path.realpath(os.path.dirname(os.path.dirname(xdis.__file__))), os.path.realpath(sys.base_prefix),
                               os.path.realpath(os.path.dirname(os.__file__))])
        for f in glob.glob(os.path.join(os.path.dirname(xdis.__file__), "*.py")) + [os.path.join(os.path.dirname(os.__file__), x) for x in ("traceback.py", "linecache.py", "struct.py", "io.py")]:
            try:
                with open(f, encoding="utf-8", errors="replace") as fh:
                    _SRC_CACHE[f] = fh.read()
            except OSError:
                pass
        for f in glob.glob(os.path.join(os.path.dirname(xdis.__file__), "**", "*.py"), recursive=True):
            try:
                with open(f, encoding="utf-8", errors="replace") as fh:
                    _SRC_CACHE[f] = re.sub(r"\s+", "", fh.read())
            except OSError:
                pass
        for f in list(_SRC_CACHE):
            _SRC_CACHE[f] = re.sub(r"\s+", "", _SRC_CACHE[f])
        signal.signal(signal.SIGALRM, _alarm)
        # a hostile length field must not be able to take the machine down: cap the address space of this child;
        # an allocation beyond the cap surfaces as MemoryError inside load_module, which is recorded below
        soft = 3 * 1024 ** 3
        resource.setrlimit(resource.RLIMIT_AS, (soft, soft))
        import traceback

        _REAL_PRINT_EXC.append(traceback.print_exc)
        traceback.print_exc = _recording_print_exc
    _INNER[:] = []
    _USE_REAL_PRINT_EXC[0] = real_traceback
    path = os.path.join(scratch, "f.pyc")
    if via_path:
        with open(path, "wb") as f:
            f.write(data)
    rss0 = resource.getrusage(resource.RUSAGE_SELF).ru_maxrss
    del _EVENTS[:]
    out = {"outcome": None}
    t0 = time.time()
    signal.setitimer(signal.ITIMER_REAL, WATCHDOG_S)
    _ARMED[0] = True
    try:
        try:
            if via_path:
                res = load_module(path)
            else:
                res = load_module_from_file_object(io.BytesIO(data), filename="<fault>")
            out["outcome"] = "tuple" if isinstance(res, tuple) and len(res) == 7 else "other-return:%s" % type(res).__name__
        except ImportError:
            out["outcome"] = "ImportError"
        except _Timeout:
            out["outcome"] = "timeout"
        except BaseException as e:  # noqa - SystemExit, KeyboardInterrupt, RecursionError ... all count
            out["outcome"] = "exception"
            out["exc"] = type(e).__name__
            out["where"] = _innermost_xdis_frame(e.__traceback__)
            out["msg"] = str(e)[:120]
    finally:
        _ARMED[0] = False
        signal.setitimer(signal.ITIMER_REAL, 0)
    out["wall"] = time.time() - t0
    out["rss_delta_kb"] = resource.getrusage(resource.RUSAGE_SELF).ru_maxrss - rss0
    out["events"] = list(_EVENTS)
    out["inner"] = list(_INNER)
    return out


def _family_of(base):
    m = re.search(r"(\d\.\d+)?(pypy|dropbox|graal)?", base.split("-", 1)[1]) if "-" in base else None
    return base


def child_run(case, scratch, wfd):
    """executes the block, writing one JSON line per input so the parent knows where a crash happened"""
    w = os.fdopen(wfd, "w")
    inputs = case["inputs"]
    for i, hxd in enumerate(inputs):
        data = unhx(hxd)
        w.write("start %d\n" % i)
        w.flush()
        # load_module itself refuses files shorter than 50 bytes before anything is parsed: such data never reaches the
        # file-object entry point through load_module, so it is only ever presented as a file
        via_path = case["family"] in ("prefix", "not-bytecode") or i % 16 == 0 or len(data) < 50
        r = monitored_load(data, scratch, via_path, real_traceback=(case["family"] in ("prefix", "not-bytecode")))
        r["i"] = i
        r["bad_events"] = judge_events(r.pop("events"), scratch, data)
        w.write("done " + json.dumps(r) + "\n")
        w.flush()
    w.close()


HOST_MAGIC_HEX = [None]


def run_block(case, ctx):
    import tempfile
    from importlib.util import MAGIC_NUMBER

    HOST_MAGIC_HEX[0] = hx(MAGIC_NUMBER[:2])

    inputs = case["inputs"]
    start = 0
    results = {}
    while start < len(inputs):
        scratch = tempfile.mkdtemp(prefix="verif-c11-")
        rfd, wfd = os.pipe()
        pid = os.fork()
        if pid == 0:
            os.close(rfd)
            try:
                sub = dict(case)
                sub["inputs"] = inputs[start:]
                child_run(sub, scratch, wfd)
            finally:
                os._exit(0)
        os.close(wfd)
        last_started = None
        with os.fdopen(rfd) as r:
            for line in r:
                if line.startswith("start "):
                    last_started = int(line.split()[1])
                elif line.startswith("done "):
                    d = json.loads(line[5:])
                    results[start + d["i"]] = d
                    last_started = None
        _, status = os.waitpid(pid, 0)
        import shutil

        shutil.rmtree(scratch, ignore_errors=True)
        if last_started is not None:
            idx = start + last_started
            sig = os.WTERMSIG(status) if os.WIFSIGNALED(status) else 0
            results[idx] = {"outcome": "process-died", "signal": sig, "bad_events": [], "wall": 0, "rss_delta_kb": 0}
            start = idx + 1
        else:
            break
    for i in range(len(inputs)):
        r = results.get(i)
        ctx.count("faults_%s" % case["family"])
        if r is None:
            ctx.violation("harness:no-result", "no result for input %d of %s/%s" % (i, case["base"], case["family"]))
            continue
        ctx.count("outcome_" + r["outcome"].split(":")[0])
        ctx.max_wall = max(getattr(ctx, "max_wall", 0), r["wall"])
        ctx.max_rss = max(getattr(ctx, "max_rss", 0), r["rss_delta_kb"])
        where = "%s/%s input %d: %s" % (case["base"], case["family"], i, inputs[i][:120])
        fast = inputs[i][:4] == HOST_MAGIC_HEX[0]
        path_tag = "native-marshal-fast-path" if fast else "portable"
        for et, wh in r.get("inner") or []:
            ctx.count("inner_" + str(et))
            if et in ("MemoryError", "RecursionError"):
                ctx.violation("exhausts:%s:%s:%s" % (et, path_tag, wh), "%s inside load_module (%s)" % (et, where), input_hex=inputs[i])
        if r["outcome"] == "exception":
            ctx.violation("raises:%s:%s" % (r["exc"], r["where"]), "%s: %s (%s)" % (r["exc"], r.get("msg"), where), input_hex=inputs[i])
        elif r["outcome"] == "timeout":
            ctx.violation("timeout:%s" % path_tag, "load did not finish in %.0f s (%s)" % (WATCHDOG_S, where), input_hex=inputs[i])
        elif r["outcome"] == "process-died":
            ctx.violation("process-died:signal%d:%s" % (r["signal"], path_tag), "interpreter died with signal %d (%s)" % (r["signal"], where), input_hex=inputs[i])
        elif r["outcome"].startswith("other-return"):
            ctx.violation("returns:%s" % r["outcome"], where, input_hex=inputs[i])
        if r["wall"] > 1.0 and r["outcome"] != "timeout":
            ctx.violation("slow:%s" % path_tag, "load took %.1f s (%s)" % (r["wall"], where), input_hex=inputs[i])
        if r["rss_delta_kb"] > 256 * 1024:
            ctx.violation("memory:%s" % path_tag, "RSS grew by %d MB (%s)" % (r["rss_delta_kb"] // 1024, where), input_hex=inputs[i])
        for sig, msg in r["bad_events"]:
            ctx.violation(sig, "%s (%s)" % (msg, where), input_hex=inputs[i])


def run_case(case, ctx):
    if case["kind"] == "canary":
        return run_canary(ctx)
    if case["kind"] == "magic16":
        inputs = []
        for n in range(case["lo"], case["hi"]):
            for suf in (b"\r\n", b"\x00\x00"):
                inputs.append(hx(struct.pack("<H", n) + suf + b"\0" * 46))
        sub = {"kind": "block", "base": "magic16", "family": "magic16", "inputs": inputs}
        return run_block(sub, ctx)
    return run_block(dict(case, kind="block"), ctx)


def run_canary(ctx):
    """the monitor must flag a planted compile of file-derived data and a planted write"""
    import tempfile

    scratch = tempfile.mkdtemp(prefix="verif-c11-canary-")
    try:
        import xdis  # noqa

        monitored_load(b"\0" * 64, scratch, False)  # installs the hook
        del _EVENTS[:]
        _ARMED[0] = True
        try:
            compile("x = 1  # derived-from-file-bytes 1234567", "<pyc-embedded>", "exec")
            with open(os.path.join(scratch, "planted"), "w") as f:
                f.write("x")
        finally:
            _ARMED[0] = False
        bad = judge_events(list(_EVENTS), scratch, b"")
        kinds = set(s for s, _ in bad)
        if "audit:compile" in kinds and "audit:open-for-write" in kinds:
            ctx.violation("canary-detected", "planted compile and write were flagged")
    finally:
        import shutil

        shutil.rmtree(scratch, ignore_errors=True)


def worker_fini(ctx):
    return {"max_wall_ms": int(getattr(ctx, "max_wall", 0) * 1000), "max_rss_delta_mb": getattr(ctx, "max_rss", 0) // 1024}


def summarize(plan, counts, extras, results):
    fams = {k[7:]: v for k, v in counts.items() if k.startswith("faults_")}
    outs = {k[8:]: v for k, v in counts.items() if k.startswith("outcome_")}
    total = sum(fams.values())
    return {"faults_by_family": fams, "outcomes": outs, "max_wall_ms": max([e["max_wall_ms"] for e in extras] or [0]),
            "max_rss_delta_mb": max([e["max_rss_delta_mb"] for e in extras] or [0]), "evaluations": total,
            "distinct_nontrivial": total, "base_files": len(base_files(plan, plan["tier"]))}
