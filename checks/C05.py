# C05 - line-number mapping equals CPython's for every line-table format.
import itertools

from gen import mdis as M
from gen.canon import unhx
from vlib import common, xinst
from vlib.xcanon import walk_xcodes

ID = "C05"
LEVEL = "exploration"
TECHNIQUE = ("bounded exhaustive enumeration of line tables per format (all 65536 single lnotab pairs, all sequences of "
             "boundary pairs, 3.10 range entries, 3.11+ location entries of every form and varint size) installed in a "
             "real code object by the matching CPython, loaded through xdis's unmarshaller; findlinestarts / starts_line "
             "compared with that CPython's dis.findlinestarts; offset2line against a linear-scan model, complete over its space")
TEXT = ("Each table of the bounded space is installed in a genuine code object of the matching interpreter, marshalled, "
        "read by xdis, and opc.findlinestarts(), xdis.findlinestarts() and Bytecode(...).starts_line must give exactly the "
        "(offset, line) pairs dis.findlinestarts gives there. Also every compiled G-program. offset2line is compared with a "
        "linear scan on every strictly increasing start list of length <= 4 over 5 offsets x every query offset.")
NOTE = ("Trusted: dis.findlinestarts of 2.7, 3.6-3.13 (the 3.8/3.9 end-of-code cut-off only applies to those two: tables "
        "reaching past the code are generated for them only). The 15 unsigned-lnotab versions without an interpreter "
        "(1.5-2.6, 3.0-3.5) are held to Python 2.7's answers on the same tables (derived oracle: same format).")
RULE = ("case = one (line table, first line, code length) triple for one reference version, or one compiled program, or one "
        "(start list, query) block for offset2line; distinct = distinct (version, table bytes, first line, code length)")
ASSUMPTIONS = ["reference = dis.findlinestarts of the producing interpreter on a code object carrying the same table",
               "dup_lines=False is used when comparing with CPython (DESIGN 3.2)"]
QUICK_VERS = ["2.7", "3.8", "3.10", "3.12"]
UNSIGNED_NO_INTERP = [(1, 5), (1, 6), (2, 0), (2, 1), (2, 2), (2, 3), (2, 4), (2, 5), (2, 6), (3, 0), (3, 1), (3, 2), (3, 3), (3, 4), (3, 5)]


def bounds(tier):
    return {"lnotab_single_pairs": 65536, "lnotab_sequence_len": 2 if tier == "quick" else 3, "py310_sequence_len": 3,
            "py311_sequence_len": 3, "versions": QUICK_VERS if tier == "quick" else common.REFS,
            "offset2line": "start lists <= 4 over {0,2,4,6,10} x queries 0..12"}


# every host reads the compiled programs (native path where the file is the host's own version);
# the synthetic spaces run on the primary host
SECONDARY_KINDS = ("prog", "offset2line")


def hosts(tier):
    return common.HOSTS


def workers_for_host(tier, host):
    return 6 if host == common.PRIMARY else 2


import sys as _sys

_PRIMARY_HOST = "%d.%d" % _sys.version_info[:2] == common.PRIMARY


def prepare(tier):
    vers = QUICK_VERS if tier == "quick" else common.REFS
    k = 1 if tier == "quick" else 2
    return {"lt": common.datasets("linetables", vers, tier), "progs": common.datasets("progs", common.REFS, k)}


def cases(plan, tier, shard, nshards, host):
    for v, path in sorted(plan["lt"].items()):
        for idx, rec in common.read_dataset(path, shard, nshards):
            if idx < 0:
                continue
            rec["kind"] = "table"
            yield rec
    for v in common.REFS:
        for idx, rec in common.read_dataset(plan["progs"][v], shard, nshards):
            if idx < 0:
                continue
            yield {"kind": "prog", "ver": rec["ver"], "id": rec["id"], "pyc": rec["pyc"],
                   "codes": [{"name": c["name"], "linestarts": c["linestarts"], "starts": [[i[0], i[6]] for i in c["insts"] if i[6] is not None]}
                             for c in rec["codes"]]}
    # unsigned-lnotab versions without an interpreter (1.5-2.6, 3.0-3.5): the 2.7 tables and 2.7's answers are the
    # reference (same format: unsigned deltas, no end-of-code cut-off) - a derived oracle like the C01 transplants
    for idx, rec in common.read_dataset(plan["lt"]["2.7"], shard, nshards):
        if idx < 0:
            continue
        if tier == "quick" and rec["tag"].startswith("1:") and (idx % 16):
            continue
        yield {"kind": "unsigned-transplant", "table": rec["table"], "firstlineno": rec["firstlineno"], "codelen": rec["codelen"],
               "linestarts": rec["linestarts"]}
    # offset2line: complete over its small space
    offs = [0, 2, 4, 6, 10]
    n = 0
    for k in range(1, 5):
        for combo in itertools.combinations(offs, k):
            for perm in ((5, 3, 9, 7), (1, 2, 3, 4)):
                if n % nshards == shard:
                    yield {"kind": "offset2line", "starts": [[o, perm[i]] for i, o in enumerate(combo)]}
                n += 1


def case_key(c):
    if c["kind"] == "unsigned-transplant":
        return "u:%s:%d:%d" % (c["table"], c["firstlineno"], c["codelen"])
    if c["kind"] == "table":
        return "t:%s:%s:%d:%d" % (c["ver"], c["table"], c["firstlineno"], c["codelen"])
    if c["kind"] == "prog":
        return "p:%s:%s" % (c["ver"], c["id"])
    return "o:%s" % c["starts"]


def describe(c):
    if c["kind"] == "unsigned-transplant":
        return {"kind": c["kind"], "table_hex": c["table"], "first_line": c["firstlineno"], "versions": "1.5-2.6, 3.0-3.5"}
    if c["kind"] == "table":
        return {"kind": "table", "version": c["ver"], "table_hex": c["table"], "first_line": c["firstlineno"], "code_len": c["codelen"],
                "reference_linestarts": c["linestarts"][:6]}
    if c["kind"] == "prog":
        return {"kind": "prog", "version": c["ver"], "program": c["id"]}
    return c


def canary_cases(plan, tier, host):
    for idx, rec in common.read_dataset(plan["lt"]["3.8"]):
        if idx >= 0 and len(rec["linestarts"]) >= 2:
            rec = dict(rec)
            rec["kind"] = "table"
            rec["linestarts"] = [[o, l + 1] for o, l in rec["linestarts"]]
            yield rec
            break


def _delta_class(table_hex, ver):
    bs = bytearray(unhx(table_hex))
    if tuple(ver) >= (3, 11):
        return "code%d" % ((bs[0] >> 3) & 15) if bs else "empty"
    lds = bs[1::2]
    if not lds:
        return "empty"
    m = max(lds)
    return "ld>=128" if m >= 128 else "ld<128"


def run_case(case, ctx):
    import xdis
    from xdis.bytecode import offset2line

    if case["kind"] == "offset2line":
        ls = [tuple(x) for x in case["starts"]]
        for q in range(ls[0][0], 13):
            ctx.count("offset2line_queries")
            want = M.m_offset2line(q, ls)
            got = offset2line(q, ls)
            if got != want:
                ctx.violation("offset2line", "offset2line(%d, %s) = %r, expected %r" % (q, ls, got, want))
        return
    if case["kind"] == "unsigned-transplant":
        table = unhx(case["table"])
        want = [tuple(x) for x in case["linestarts"]]
        for ver in UNSIGNED_NO_INTERP:
            ctx.count("unsigned_transplants")
            opc = xinst.opc_for(ver)
            co = xinst.portable_with_code(ver, b"\x09" * case["codelen"], nconst=1, nname=1, nvar=1, lnotab=table, firstlineno=case["firstlineno"])
            try:
                got = [tuple(x) for x in opc.findlinestarts(co, dup_lines=False)]
            except Exception as e:
                ctx.violation("%d.%d:opc.findlinestarts:raises:%s:transplant" % (ver[0], ver[1], type(e).__name__), "%r on table %s" % (e, case["table"]))
                continue
            if got != want:
                ctx.violation("%d.%d:opc.findlinestarts:%s:transplant" % (ver[0], ver[1], _delta_class(case["table"], ver)),
                              "gives %s, Python 2.7 (same unsigned format) %s (table %s first line %d)" % (got[:6], want[:6], case["table"], case["firstlineno"]))
        return
    ver = tuple(case["ver"])
    vtag = "%d.%d" % ver
    opc = xinst.opc_for(ver)
    ctx.count("cases_%s_%s" % (case["kind"], vtag))
    if case["kind"] == "table":
        cls = _delta_class(case["table"], ver)
        try:
            co = xinst.load_payload(case["payload"], ver)
        except Exception as e:
            ctx.violation("%s:load-raises:%s" % (vtag, type(e).__name__), "%r on table %s" % (e, case["table"]))
            return
        _check(ctx, vtag, ver, cls, "table %s firstline %d codelen %d" % (case["table"], case["firstlineno"], case["codelen"]),
               co, opc, case["linestarts"], None, case.get("colines"))
        return
    try:
        _, co, _ = xinst.load_pyc(case["pyc"])
    except Exception as e:
        ctx.violation("%s:load-raises:%s" % (vtag, type(e).__name__), str(e)[:200])
        return
    for xc, rc in zip(walk_xcodes(co), case["codes"]):
        _check(ctx, vtag, ver, "prog", case["id"] + "/" + rc["name"], xc, opc, rc["linestarts"], rc["starts"], None)


def _check(ctx, vtag, ver, cls, where, co, opc, ref_ls, ref_starts, ref_colines):
    import xdis

    want = [tuple(x) for x in ref_ls]
    finders = [("opc.findlinestarts", lambda: opc.findlinestarts(co, dup_lines=False))]
    if (3, 8) <= ver < (3, 13):
        # the version-less module-level function cannot know whether a Code3 object is 3.5 (unsigned deltas), 3.6
        # (signed, no cut-off) or a Code38 one; its defaults are the 3.8+ rules, and 3.13 has its own function:
        # it is held to the property where its signature suffices
        finders.append(("xdis.findlinestarts", lambda: xdis.findlinestarts(co, dup_lines=False)))
    for fname, fn in finders:
        ctx.count("findlinestarts_calls")
        try:
            got = [tuple(x) for x in fn()]
        except Exception as e:
            ctx.violation("%s:%s:raises:%s:%s" % (vtag, fname, type(e).__name__, cls), "%r (%s)" % (e, where))
            continue
        if got != want:
            ctx.violation("%s:%s:%s" % (vtag, fname, cls), "gives %s, CPython %s (%s)" % (got[:6], want[:6], where))
    if len(co.co_code) > 48 and ref_starts is None:
        ctx.count("starts_line_skipped_long_synthetic_code")  # xdis's iterator is quadratic; short codes cover the plumbing
        return
    try:
        ins = xinst.xinsts(co, opc, dup_lines=False)
    except Exception as e:
        ctx.violation("%s:Bytecode:raises:%s:%s" % (vtag, type(e).__name__, cls), "%r (%s)" % (e, where))
        return
    got = [(i.offset, i.starts_line) for i in ins if i.starts_line is not None]
    codelen = len(co.co_code)
    if ref_starts is not None:
        want_s = [tuple(x) for x in ref_starts]
    else:
        d = {}
        inst_offsets = set(i.offset for i in ins)
        for o, l in want:
            if o in inst_offsets and l is not None:
                d[o] = l
        want_s = sorted(d.items())
    if got != want_s:
        ctx.violation("%s:starts_line:%s" % (vtag, cls), "starts_line pairs %s, CPython %s (%s)" % (got[:6], want_s[:6], where))
    elif ref_starts is not None and len(co.co_code) <= 200 and _PRIMARY_HOST:
        # the same lines through the non-default routes: an explicit first_line (dis.Bytecode semantics: every line moves by
        # first_line - co_firstlineno, "no line" stays None) and get_instructions_bytes with linestarts + line_offset
        from xdis.bytecode import Bytecode, get_instructions_bytes

        for delta in (100,):
            ctx.count("first_line_routes")
            try:
                shifted = [(i.offset, i.starts_line) for i in Bytecode(co, opc, first_line=co.co_firstlineno + delta, dup_lines=False) if i.starts_line is not None]
                want_shift = [(o, l + delta) for o, l in want_s]
                if shifted != want_shift:
                    ctx.violation("%s:starts_line:first_line-route:%s" % (vtag, cls), "with first_line=co_firstlineno%+d: %s, expected %s (%s)" % (delta, shifted[:6], want_shift[:6], where))
                ls = dict(opc.findlinestarts(co, dup_lines=False))
                via = [(i.offset, i.starts_line) for i in get_instructions_bytes(co.co_code, opc, linestarts=ls, line_offset=delta) if i.starts_line is not None]
                if via != want_shift:
                    ctx.violation("%s:starts_line:line_offset-route:%s" % (vtag, cls), "get_instructions_bytes(linestarts, line_offset=%d): %s, expected %s (%s)" % (delta, via[:6], want_shift[:6], where))
            except Exception as e:
                ctx.violation("%s:starts_line:first_line-route:raises:%s:%s" % (vtag, type(e).__name__, cls), "%r (%s)" % (e, where))
    if ref_colines is not None and hasattr(co, "co_lines"):
        try:
            def per_unit(ranges):
                # 3.10 and 3.12+ merge neighbouring ranges of one line, 3.11 reports one range per table entry: the
                # statement is about the line of each code unit, so ranges are compared expanded (as in C17)
                out = {}
                for (a, b, line) in ranges:
                    for u in range(a, b, 2):
                        out[u] = line
                return sorted(out.items())

            gl = per_unit([tuple(x) for x in co.co_lines()])
            wl = per_unit([tuple(x) for x in ref_colines])
            if gl != wl:
                ctx.violation("%s:co_lines:%s" % (vtag, cls), "co_lines() %s, CPython %s (%s)" % (gl[:5], wl[:5], where))
        except Exception as e:
            ctx.violation("%s:co_lines:raises:%s:%s" % (vtag, type(e).__name__, cls), "%r (%s)" % (e, where))
