# C14 - xdis.marsh and the built-in marshal are interchangeable on plain values.
import itertools
import sys

from vlib import common

ID = "C14"
LEVEL = "exploration"
TECHNIQUE = ("bounded exhaustive enumeration of plain values (all atom kinds incl. ints +-2**k, +-(2**k +-1) for k<=200, "
             "boundary code points alone and in pairs - all 1,114,112 code points in thorough -, containers to depth 2/3) on "
             "each of the six hosts: marshal.loads(xdis.marsh.dumps(x)) and xdis.marsh.loads(marshal.dumps(x, 0|1)) compared "
             "with x on a canonical kind-and-value tree")
TEXT = ("Every value of the bounded grammar is pushed through both directions on every host that can import the package; "
        "the host's own marshal is the reference in both directions, and equality is on kind and value (int vs bool, bytes "
        "vs text, tuple vs list, set vs frozenset, float bit pattern).")
NOTE = ("Trusted: the host's built-in marshal. Values outside the alphabet (strings longer than 300, nesting deeper than the "
        "bound) are not covered. Code objects are C13's business, not this property's.")
RULE = ("case = one block of values for one direction on one host; distinct = distinct (host, direction, value repr); each "
        "value is one evaluation (counted in coverage.counts.values)")
ASSUMPTIONS = ["reference = marshal of the running host"]
CPS = [0, 0x7F, 0x80, 0xFF, 0x100, 0x7FF, 0x800, 0xD7FF, 0xD800, 0xDFFF, 0xE000, 0xFFFF, 0x10000, 0x10FFFF]


def hosts(tier):
    return common.HOSTS


def bounds(tier):
    return {"scale": "counts 2100/4100/65535/65536/70000, strings of 70000, ints of 14000 bits, nesting chains 50/100/200", "int_k_max": 200, "code_points": "14 boundary points alone and in pairs" if tier == "quick" else "all 1114112", "depth": 2 if tier == "quick" else 3}


def prepare(tier):
    return {"tier": tier}


def atoms():
    inf = float("inf")
    A = [None, True, False, Ellipsis, StopIteration, 0.0, -0.0, 1.5, 1e-320, 1.7976931348623157e308, inf, -inf, inf - inf,
         1 + 2j, complex(-0.0, 0.0), complex(inf - inf, inf), b"", b"a", b"\x00\xff", b"x" * 300, "", "a", "abc def", "a" * 255, "a" * 256, "\xe9" * 300]
    return A


def ints():
    out = set([0, 1, -1])
    for k in range(0, 201):
        for d in (-1, 0, 1):
            out.add(2 ** k + d)
            out.add(-(2 ** k) + d)
    return sorted(out)


def texts(tier):
    for a in CPS:
        yield chr(a)
    for a in CPS:
        for b in CPS:
            yield chr(a) + chr(b)
    yield "".join(chr(c) for c in CPS)


def containers(depth):
    R = [None, 1, 2 ** 31, 2 ** 70, 1.5, "a", "\xe9", b"a", (), True]
    out = []
    for a in atoms() + [2 ** 31, -2 ** 63, 10 ** 30]:
        out.append((a,))
        out.append([a])
        out.append({1: a})
        try:
            hash(a)
            out.append(frozenset([a]))
            out.append({a})
            out.append({a: 1})
        except TypeError:
            pass
    for a, b in itertools.product(R, repeat=2):
        out += [(a, b), [a, b], {a: b}, frozenset([a, b])]
    # one mutable object referenced twice as siblings (no cycle): marshal writes it twice
    row, dd = [1, 2], {"k": 1}
    out += [[row, row], (row, row), {"a": dd, "b": dd}, [[0] * 3] * 3, [dd, [dd]], {"p": row, "q": (row,)}]
    out += [(), [], {}, set(), frozenset(), {None: None}, tuple(range(255)), tuple(range(256)), list(range(300)), set(range(300)),
            dict((i, str(i)) for i in range(300)), tuple(["s"] * 256)]
    if depth >= 2:
        R2 = [(), (1,), [1], frozenset([1]), {1: 2}, (None, "a"), [], {}, ("\xe9", b"\xff")]
        for a in R2:
            out += [(a, 5), [a, 5], {5: a}]
            try:
                hash(a)
                out += [frozenset([a, 5]), {a: 5}]
            except TypeError:
                pass
    if depth >= 3:
        for a in [((1,),), [[1]], ({1: (2,)},), (frozenset([(1, 2)]),), [((), [])]]:
            out += [(a, a), [a, 6], {6: a}]
    return out


def scale():
    """beyond the small bounds: counts above 255 / 2000 / 65535 and nesting up to 200 (deeper chains run into the
    interpreter's recursion limit in any pure-Python writer - an environment resource, outside the explored space)"""
    out = []

    def chain(n, mk):
        v = 1
        for _ in range(n):
            v = mk(v)
        return v

    for n in (50, 100, 200):
        out += [chain(n, lambda v: [v]), chain(n, lambda v: (v,)), chain(n, lambda v: {1: v}), chain(n // 3, lambda v: [({2: v},)])]
    for n in (2100, 4100):
        out += [[{} for _ in range(n)], [[] for _ in range(n)], [() for _ in range(n)], [set() for _ in range(n)], [frozenset([i]) for i in range(n)],
                [{"id": i, "tags": [i], "pos": (i, i)} for i in range(n)], dict((i, {i: [i]}) for i in range(n)), tuple((i, (i,)) for i in range(n))]
    out += [tuple(range(70000)), list(range(65535)), list(range(65536)), set(range(70000)), dict((i, i) for i in range(70000)),
            b"\x00\xff" * 35000, "a" * 70000, "\xe9\u20ac" * 35000, "\U0001F600" * 70000, 2 ** 14000, -(2 ** 14000) + 1,
            ["s" * 300] * 300, [("k%d" % i) * 50 for i in range(3000)], (1.5,) * 70000, [None] * 70000]
    return out


def blocks(tier):
    """(name, list of values)"""
    yield "atoms", atoms()
    S = scale()
    for i in range(0, len(S), 8):
        yield "scale%d" % i, S[i:i + 8]
    I = ints()
    for i in range(0, len(I), 200):
        yield "ints%d" % i, I[i:i + 200]
    T = list(texts(tier))
    for i in range(0, len(T), 100):
        yield "texts%d" % i, T[i:i + 100]
    C = containers(2 if tier == "quick" else 3)
    for i in range(0, len(C), 100):
        yield "containers%d" % i, C[i:i + 100]
    if tier == "thorough":
        for lo in range(0, 0x110000, 0x2000):
            yield "cp%05x" % lo, None  # generated lazily in run_case


def cases(plan, tier, shard, nshards, host):
    n = 0
    for name, vals in blocks(tier):
        for direction in ("dumps", "loads0", "loads1"):
            n += 1
            if n % nshards == shard:
                yield {"block": name, "direction": direction, "tier": tier}


def case_key(c):
    return "%s:%s" % (c["block"], c["direction"])


def describe(c):
    return c


def canary_cases(plan, tier, host):
    yield {"block": "canary", "direction": "canary", "tier": tier}


def vkind(v):
    return type(v).__name__


def run_case(case, ctx):
    import marshal

    import xdis.marsh
    from gen.canon import canon
    from vlib.xcanon import xcanon

    host = sys.version_info[:2]
    htag = "%d.%d" % host
    if case["block"] == "canary":
        if canon((1, "a")) != canon([1, "a"]) and canon(True) != canon(1) and canon(b"a") != canon("a") and canon(0.0) != canon(-0.0):
            ctx.violation("canary-detected", "canonical comparison separates kinds")
        return
    if case["block"].startswith("cp"):
        lo = int(case["block"][2:], 16)
        vals = [chr(c) for c in range(lo, min(lo + 0x2000, 0x110000))]
    else:
        vals = dict(blocks(case["tier"]))[case["block"]]
    for v in vals:
        ctx.count("values")
        want = canon(v)
        cls = vkind(v)
        if isinstance(v, str):
            m = max([ord(c) for c in v] or [0])
            cls = "str:" + ("ascii" if m < 128 else "latin1" if m < 256 else "surrogate" if any(0xD800 <= ord(c) <= 0xDFFF for c in v) else "bmp" if m < 0x10000 else "astral")
        elif isinstance(v, int) and not isinstance(v, bool):
            cls = "int:" + ("small" if -2 ** 31 <= v < 2 ** 31 else "big")
        elif isinstance(v, (tuple, list, set, frozenset, dict)):
            cls = vkind(v)
        if case["direction"] == "dumps":
            try:
                data = xdis.marsh.dumps(v)
            except Exception as e:
                ctx.violation("%s:dumps-raises:%s:%s" % (htag, type(e).__name__, cls), "xdis.marsh.dumps(%s) raised %r" % (repr(v)[:60], e))
                continue
            if not isinstance(data, bytes):
                ctx.violation("%s:dumps-returns:%s:%s" % (htag, type(data).__name__, cls), "dumps(%s) returned %s, not bytes" % (repr(v)[:60], type(data).__name__))
                continue
            try:
                back = marshal.loads(data)
            except Exception as e:
                ctx.violation("%s:host-rejects:%s:%s" % (htag, type(e).__name__, cls), "marshal.loads rejects xdis.marsh.dumps(%s): %r" % (repr(v)[:60], e))
                continue
            try:
                got = canon(back)
            except TypeError:
                got = {"t": "uncanonical:" + type(back).__name__}
            from vlib.xcanon import tree_diff as _td

            # plain values are written with binary floats: every bit of a NaN must come back
            if got != want and _td(want, got, nan_loose=False):
                ctx.violation("%s:dumps-roundtrip:%s" % (htag, cls), "marshal.loads(xdis.marsh.dumps(%s)) = %s" % (repr(v)[:60], repr(back)[:80]))
        else:
            mv = int(case["direction"][-1])
            data = marshal.dumps(v, mv)
            try:
                back = xdis.marsh.loads(data)
            except Exception as e:
                ctx.violation("%s:loads-raises:%s:%s" % (htag, type(e).__name__, cls), "xdis.marsh.loads(marshal.dumps(%s, %d)) raised %r" % (repr(v)[:60], mv, e))
                continue
            got = xcanon(back, host)
            if got != want:
                from vlib.xcanon import tree_diff

                d = tree_diff(want, got, nan_loose=True)
                if d:
                    ctx.violation("%s:loads-roundtrip:%s" % (htag, cls), "xdis.marsh.loads(marshal.dumps(%s, %d)) = %s" % (repr(v)[:60], mv, repr(back)[:80]))


def summarize(plan, counts, extras, results):
    n = counts.get("values", 0)
    return {"evaluations": n, "distinct_nontrivial": n // max(1, len(common.HOSTS)),
            "note_on_counts": "evaluations = values pushed through one direction on one host; distinct = per host"}
