# C06 - pyc header is decoded per the file format of the bytecode's version.
import glob
import io
import os
import re
import struct

from gen import mdis as M
from gen.canon import hx, unhx
from models import m_magic
from vlib import common
from vlib.xcanon import tree_diff, xcanon

ID = "C06"
LEVEL = "exploration"
TECHNIQUE = ("bounded exhaustive enumeration of pyc headers (every final-release magic 1.5-3.13 and every corpus magic x "
             "flag-word placements x boundary 32-bit timestamp/size and 64-bit hash values) through the real load_module, "
             "against header model M-hdr, which is first replayed against importlib._classify_pyc of 3.7-3.13 and the "
             "headers py_compile of all nine interpreters writes in every invalidation mode")
TEXT = ("All header variants of the bounded space are loaded by the real loader; reported version, magic, timestamp / size / "
        "hash (presence and value) must equal the header model, and the code object read after the header must equal the "
        "payload's ground truth, so the read provably starts at the right byte. The model itself is conformance-checked "
        "against CPython on every run (count in evidence).")
NOTE = ("Trusted: importlib._bootstrap_external._classify_pyc (3.7+), py_compile of the nine interpreters, the CPython magic "
        "registry. PyPy / 1.0-1.4 magics (no interpreter): version from the corpus directory name + full consumption only.")
RULE = ("case = one (magic, header variant) pair or one real py_compile file or one corpus file; distinct = distinct header "
        "bytes; all reach the field comparison")
ASSUMPTIONS = ["M-hdr (gen/mdis.mhdr) is the header form by version; conformance count is in coverage.model_conformance",
               "flag words CPython rejects are only required not to raise anything but ImportError"]
FIELD = [0, 1, 0x7FFFFFFF, 0x80000000, 0xFFFFFFFF]
HASHES = [0, 1, 2 ** 63, 2 ** 64 - 1, 0x0102030405060708]


def hosts(tier):
    return common.HOSTS


def prepare(tier):
    hd = common.datasets("headers", common.REFS)
    pg = common.datasets("progs", common.REFS, 1)
    # M-hdr conformance against the real interpreters
    conf = 0
    for v, p in hd.items():
        for idx, rec in common.read_dataset(p):
            if idx < 0:
                continue
            ver = tuple(rec["ver"])
            if rec["id"].startswith("real:"):
                data = unhx(rec["pyc"])
                flags = struct.unpack("<I", data[4:8])[0] if ver >= (3, 7) else 0
                form, hl = M.mhdr(ver, flags)
                if form == ("hash",):
                    assert hx(data[8:16]) == rec["hash"], ("M-hdr: hash position", rec["id"], ver)
                else:
                    ts_off = 8 if ver >= (3, 7) else 4
                    assert struct.unpack("<I", data[ts_off:ts_off + 4])[0] == rec["mtime"], ("M-hdr: ts position", rec["id"], ver)
                    if "size" in form:
                        assert struct.unpack("<I", data[ts_off + 4:ts_off + 8])[0] == rec["size"], ("M-hdr: size position", ver)
                assert data[hl:hl + 1] in (b"c", b"\xe3"), ("M-hdr: header length", rec["id"], ver, hl)
                conf += 1
            else:
                # _classify_pyc accepts exactly the words {0,1,2,3}
                assert rec["accepted"] == (rec["word"] in (0, 1, 2, 3)), ("M-hdr: flag word", rec)
                conf += 1
    return {"headers": hd, "progs": pg, "model_conformance": conf}


def _payloads(plan):
    """one small valid payload + ground-truth tree per reference version"""
    out = {}
    for v in common.REFS:
        for idx, rec in common.read_dataset(plan["progs"][v]):
            if idx >= 0 and rec["id"] == "fn_defaults@module":
                out[v] = (unhx(rec["pyc"])[rec["hdrlen"]:], rec["tree"])
                break
    return out


def variants(ver):
    """[(header-bytes-after-magic, expected dict)] for bytecode version ver"""
    out = []
    if ver >= (3, 7):
        words = set([0, 1, 2, 3])
        for fb in range(4):
            for val in (0, 1, 2, 3, 0x80, 0xFF):
                words.add(val << (8 * fb))
        for w in sorted(words):
            form, hl = M.mhdr(ver, w)
            valid = w in (0, 1, 2, 3)
            if w & 1:
                for h in HASHES:
                    out.append((struct.pack("<IQ", w, h), {"valid": valid, "ts": None, "size": None, "hash": h, "tag": "flags=%#x" % w}))
            else:
                for ts in FIELD:
                    for sz in (FIELD if (w == 0 and ts in (0, 0xFFFFFFFF)) else [0x1234]):
                        out.append((struct.pack("<III", w, ts, sz), {"valid": valid, "ts": ts, "size": sz, "hash": None, "tag": "flags=%#x" % w}))
    elif ver >= (3, 3):
        for ts in FIELD:
            for sz in FIELD:
                out.append((struct.pack("<II", ts, sz), {"valid": True, "ts": ts, "size": sz, "hash": None, "tag": "ts+size"}))
    else:
        for ts in FIELD:
            out.append((struct.pack("<I", ts), {"valid": True, "ts": ts, "size": None, "hash": None, "tag": "ts"}))
    return out


def cases(plan, tier, shard, nshards, host):
    pay = _payloads(plan)
    n = 0
    for ver in sorted(m_magic.FINAL):
        mints = [m_magic.FINAL[ver]] + m_magic.ALSO_RELEASED.get(ver, [])
        vkey = "%d.%d" % ver
        for mi in mints:
            magic = struct.pack("<H", mi) + b"\r\n"
            first = {}
            for hdr, exp in variants(ver):
                n += 1
                if n % nshards != shard:
                    continue
                c = {"kind": "synthetic", "ver": list(ver), "magic_int": mi, "exp": exp}
                key = (exp["tag"], exp["hash"] is not None)
                if vkey in pay and exp["valid"] and key not in first:
                    first[key] = 1
                    c["pyc"] = hx(magic + hdr + pay[vkey][0])
                    c["tree"] = pay[vkey][1]
                    c["get_code"] = True
                else:
                    c["pyc"] = hx(magic + hdr + b"N" + b"\0" * 48)
                    c["get_code"] = False
                yield c
    for v, p in sorted(plan["headers"].items()):
        for idx, rec in common.read_dataset(p):
            if idx < 0 or not rec["id"].startswith("real:"):
                continue
            n += 1
            if n % nshards == shard:
                yield {"kind": "real", "ver": rec["ver"], "pyc": rec["pyc"], "mode": rec["mode"], "mtime": rec["mtime"],
                       "size": rec["size"], "hash": rec.get("hash")}
    for f in sorted(glob.glob(os.path.join(common.REPO, "test", "bytecode_*", "*.pyc"))):
        n += 1
        if n % nshards == shard:
            yield {"kind": "corpus", "path": os.path.relpath(f, common.REPO)}


def case_key(c):
    return c.get("pyc", "")[:64] + str(c.get("path")) + str(c.get("get_code"))


def describe(c):
    d = {k: v for k, v in c.items() if k not in ("pyc", "tree")}
    if "pyc" in c:
        d["header_hex"] = c["pyc"][:32]
    return d


def canary_cases(plan, tier, host):
    yield {"kind": "synthetic", "ver": [3, 8], "magic_int": 3413, "get_code": False,
           "pyc": hx(struct.pack("<H", 3413) + b"\r\n" + struct.pack("<III", 0, 5, 6) + b"N" + b"\0" * 48),
           "exp": {"valid": True, "ts": 6, "size": 5, "hash": None, "tag": "canary"}}


class TrackIO(io.BytesIO):
    pass


def _header_listing(data, fmt="header"):
    import tempfile

    from xdis.disasm import disassemble_file

    d = tempfile.mkdtemp(prefix="verif-c06-")
    try:
        p = os.path.join(d, "x.pyc")
        with open(p, "wb") as f:
            f.write(data)
        out = io.StringIO()
        disassemble_file(p, outstream=out, asm_format=fmt)
        return out.getvalue()
    finally:
        import shutil

        shutil.rmtree(d, ignore_errors=True)


_SCR = []


def run_case(case, ctx):
    from xdis.load import load_module, load_module_from_file_object

    if case["kind"] == "corpus":
        return run_corpus(case, ctx)
    ver = tuple(case["ver"])
    vtag = "%d.%d" % ver
    data = unhx(case["pyc"])
    ctx.count("cases_%s" % case["kind"])
    if case["kind"] == "real":
        exp = {"valid": True, "tag": case["mode"], "ts": None, "size": None, "hash": None}
        if case.get("hash"):
            exp["hash"] = struct.unpack("<Q", unhx(case["hash"]))[0]
        else:
            exp["ts"] = case["mtime"]
            exp["size"] = case["size"] if ver >= (3, 3) else None
        mi = struct.unpack("<H", data[:2])[0]
        get_code = True
    else:
        exp = case["exp"]
        mi = case["magic_int"]
        get_code = case["get_code"]
    form = "hash" if exp["hash"] is not None else ("ts+size" if exp["size"] is not None else "ts")
    sigbase = "%s:%s" % (vtag, form)
    try:
        res = load_module_from_file_object(io.BytesIO(data), filename="<c06>", get_code=get_code)
    except ImportError as e:
        if exp["valid"]:
            ctx.violation(sigbase + ":raises-ImportError", "valid header (%s) rejected: %s" % (exp["tag"], str(e)[:150]))
        else:
            ctx.count("invalid_flag_words_rejected")
        return
    except Exception as e:
        ctx.violation(sigbase + ":raises:%s" % type(e).__name__, "%r for header %s" % (e, case["pyc"][:40]))
        return
    if not exp["valid"]:
        ctx.count("invalid_flag_words_tolerated")
        return
    v, ts, magic_int, co, pypy, size, sip = res
    if tuple(v[:2]) != ver:
        ctx.violation(sigbase + ":version", "version %s for magic %d, expected %s" % (v, mi, ver))
    if magic_int != mi:
        ctx.violation(sigbase + ":magic", "magic_int %r, file has %d" % (magic_int, mi))
    for name, got, want in (("timestamp", ts, exp["ts"]), ("size", size, exp["size"]), ("hash", sip, exp["hash"])):
        if got != want:
            ctx.violation(sigbase + ":" + name, "%s is %r, header stores %r (%s, header %s)" % (name, got, want, exp["tag"], case["pyc"][8:40]))
    if pypy:
        ctx.violation(sigbase + ":pypy", "CPython magic %d reported as PyPy" % mi)
    # every public route to the header reports the same fields: file object / path x get_code True / False
    import os
    import tempfile

    if not _SCR:
        _SCR.append(tempfile.mkdtemp(prefix="verif-c06-"))
    want_fields = (tuple(v[:2]), ts, magic_int, bool(pypy), size, sip)
    for route in ("fileobj:get_code=%s" % (not get_code), "path:get_code=True", "path:get_code=False"):
        gc = route.endswith("True")
        if route.startswith("path") and len(data) < 50:
            continue    # load_module refuses files shorter than 50 bytes by design
        if gc and not get_code:
            continue    # synthetic headers without a payload cannot be asked for their code
        ctx.count("header_routes")
        try:
            if route.startswith("path"):
                pth = os.path.join(_SCR[0], "h.pyc")
                with open(pth, "wb") as f:
                    f.write(data)
                r2 = load_module(pth, get_code=gc)
            else:
                r2 = load_module_from_file_object(io.BytesIO(data), filename="<c06>", get_code=gc)
            got_fields = (tuple(r2[0][:2]), r2[1], r2[2], bool(r2[4]), r2[5], r2[6])
            if got_fields != want_fields:
                ctx.violation(sigbase + ":route-differs:" + route.replace("=", "-"), "%s reports (version, ts, magic, pypy, size, hash) = %r, the default route %r (%s, header %s)"
                              % (route, got_fields, want_fields, exp["tag"], case["pyc"][8:40]))
            if not gc and r2[3] is not None:
                ctx.violation(sigbase + ":route-get_code-false-returns-code", "%s returned a code object" % route)
        except Exception as e:
            ctx.violation(sigbase + ":route-raises:%s:%s" % (route.replace("=", "-"), type(e).__name__), "%r (%s)" % (e, exp["tag"]))
    if get_code:
        if case.get("tree") is not None:
            d = tree_diff(case["tree"], xcanon(co, ver))
            if d:
                ctx.violation(sigbase + ":code-after-header", "code object differs at %s: expected %s got %s" % d)
        elif co is None or not hasattr(co, "co_code"):
            ctx.violation(sigbase + ":code-after-header", "no code object")
        # the header listing shows exactly the same fields
        try:
            txt = _header_listing(data)
        except Exception as e:
            ctx.violation(sigbase + ":header-listing-raises:%s" % type(e).__name__, repr(e))
            return
        m_ts = re.search(r"^# Timestamp in code: (\d+)", txt, re.M)
        m_sz = re.search(r"^# Source code size mod 2\*\*32: (\d+) bytes", txt, re.M)
        m_h = re.search(r"^# SipHash:\s+0x([0-9a-f]+)", txt, re.M)
        m_v = re.search(r"Python bytecode (\d+)\.(\d+)[.\d]* \((\d+)\)", txt)
        shown = (int(m_ts.group(1)) if m_ts else None, int(m_sz.group(1)) if m_sz else None, int(m_h.group(1), 16) if m_h else None)
        if shown != (exp["ts"], exp["size"], exp["hash"]):
            ctx.violation(sigbase + ":header-listing", "listing shows (ts,size,hash)=%r, header stores %r" % (shown, (exp["ts"], exp["size"], exp["hash"])))
        if not m_v or (int(m_v.group(1)), int(m_v.group(2)), int(m_v.group(3))) != (ver[0], ver[1], mi):
            ctx.violation(sigbase + ":header-listing-version", "listing version line: %r" % (m_v.group(0) if m_v else None))


def run_corpus(case, ctx):
    """corpus files incl. 1.0-1.4 and PyPy: version from the directory name, payload fully consumed"""
    from xdis.load import load_module_from_file_object

    path = os.path.join(common.REPO, case["path"])
    m = re.search(r"bytecode_(\d)\.(\d+)(pypy|dropbox|graal)?", case["path"])
    if m:
        ver = (int(m.group(1)), int(m.group(2)))
        variant = m.group(3) or ""
    else:
        m = re.search(r"bytecode_(pypy|graal)(\d)(\d+)", case["path"])
        ver = (int(m.group(2)), int(m.group(3)))
        variant = m.group(1)
    ctx.count("cases_corpus")
    with open(path, "rb") as f:
        data = f.read()
    if variant == "dropbox":
        ctx.count("corpus_dropbox_skipped")
        return
    pos = []

    class Track(io.BytesIO):
        def close(self):
            pos.append(self.tell())
            io.BytesIO.close(self)

    fp = Track(data)
    vtag = "%d.%d%s" % (ver[0], ver[1], variant)
    try:
        res = load_module_from_file_object(fp, filename=path)
    except Exception as e:
        ctx.violation("corpus:%s:raises:%s" % (vtag, type(e).__name__), "%s: %s" % (case["path"], str(e)[:150]))
        return
    # directory names are a usable oracle from 1.5 on (1.1 and 1.2 share a magic; some files in plain
    # directories really are PyPy files), so: version for >= 1.5, PyPy flag only for the *pypy directories
    if ver >= (1, 5) and tuple(res[0][:2]) != ver:
        ctx.violation("corpus:%s:version" % vtag, "%s reported as %s" % (case["path"], res[0]))
    if variant == "pypy" and not res[4]:
        ctx.violation("corpus:%s:pypy-flag" % vtag, "%s is_pypy=%r" % (case["path"], res[4]))
    if pos and pos[0] != len(data) and variant != "graal":
        ctx.violation("corpus:%s:consumed" % vtag, "%s: %d of %d bytes consumed" % (case["path"], pos[0], len(data)))
    form, hl = M.mhdr(ver, struct.unpack("<I", data[4:8])[0] if ver >= (3, 7) else 0)
    if variant == "" and ver >= (1, 5) and not res[4]:
        want_size = "size" in form
        if (res[5] is not None) != want_size:
            ctx.violation("corpus:%s:size-presence" % vtag, "%s: size %r" % (case["path"], res[5]))
        if (res[6] is not None) != (form == ("hash",)):
            ctx.violation("corpus:%s:hash-presence" % vtag, "%s: hash %r" % (case["path"], res[6]))


def summarize(plan, counts, extras, results):
    return {"model_conformance": {"M-hdr_replayed_against_real_headers_and_classify_pyc": plan["model_conformance"]}}


def worker_fini(ctx):
    import shutil

    for d in _SCR:
        shutil.rmtree(d, ignore_errors=True)
