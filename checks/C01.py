# C01 - unmarshalled code objects equal what the producing CPython loads.
import io
import struct

from gen.canon import unhx
from models import m_magic, m_marshal
from vlib import common
from vlib.xcanon import tree_diff, xcanon

ID = "C01"
LEVEL = "exploration"
TECHNIQUE = ("bounded exhaustive enumeration of compiled programs (grammar G, k statements x scopes x 9 producing "
             "interpreters x transplant magics) executed on the real unmarshaller, compared field-by-field with the "
             "producing CPython's marshal.loads")
TEXT = ("Every element of a finite, explicitly bounded space of bytecode files is loaded by the real load_module / "
        "load_code and compared on a canonical tree with what the producing CPython's own marshal returns, plus exact "
        "payload consumption with 0-8 trailing sentinel bytes. Exhaustive within the bound, not a proof for all files.")
NOTE = ("Trusted: the nine CPython binaries, gen/canon.py canonicaliser (shared by both sides), the transplant argument "
        "(same marshal layout inside a version class). Not covered: versions <= 2.2, PyPy, Graal (no interpreter).")
RULE = ("(ii) every stream of the constant grammar shared with C10 (value shapes x marshal format versions x <=d encoding "
        "deviations), compared on the whole code tree and on exact consumption; (i) every program of grammar G with <= k statements x 4 scopes, compiled and marshalled by each of the nine "
        "reference CPythons (quick k=1, thorough k=2), plus every re-heading of each payload to the final-release "
        "magic of every other version with the same marshal layout (transplants, with the marshal format version "
        "that target reads); a case is one (pyc bytes, expected canonical tree) pair; distinct = distinct pyc byte "
        "strings; all reach the comparison (non-trivial) because the reference interpreter produced them")
ASSUMPTIONS = [
    "ground truth = canonical tree of marshal.loads in the producing interpreter (2.7.18, 3.6.15 .. 3.13.0)",
    "transplant oracle (versions without interpreter, same code-object byte layout) is derived: DESIGN 3.4",
    "versions without interpreter (1.0-2.6, 3.0-3.5, PyPy): corpus files compared with the independent reader M-marshal, "
    "which is replayed against the nine real interpreters on every farm case (coverage.counts.model_conformance_M-marshal)",
    "tolerances of DESIGN 3.2 (py2 str as str-or-bytes, LongTypeForPython3 as int in py3 files)",
]


def bounds(tier):
    return {"statements_k": 1 if tier == "quick" else 2, "scopes": 4, "versions": common.REFS,
            "transplant_targets": "all final releases of the same layout class"}


def hosts(tier):
    return common.HOSTS


def workers_for_host(tier, host):
    return 6 if host == common.PRIMARY else 2


def prepare(tier):
    k = 1 if tier == "quick" else 2
    return {"progs": common.datasets("progs", common.REFS, k), "consts": common.datasets("consts", common.REFS, tier)}


# source release -> [(pre-release magic, header length, version the file is of)]: CPython's registry
# (importlib/_bootstrap_external.py) says what changed at each magic; only magics whose marshal layout equals the source's
INTERIM = {"3.6": [(3376, 12, (3, 6)), (3377, 12, (3, 6)), (3378, 12, (3, 6)), (3379, 12, (3, 6)),
                   # the 3.3 series: the source-size word arrived with 3210; the code layout is that of 3.0-3.7
                   (3190, 8, (3, 3)), (3200, 8, (3, 3)), (3210, 12, (3, 3)), (3220, 12, (3, 3)), (3230, 12, (3, 3))],
           "3.7": [(3390, 12, (3, 7)), (3391, 12, (3, 7)), (3392, 16, (3, 7)), (3393, 16, (3, 7))],
           "3.8": [(3410, 16, (3, 8)), (3411, 16, (3, 8)), (3412, 16, (3, 8))],
           "3.9": [(3420, 16, (3, 9)), (3421, 16, (3, 9)), (3422, 16, (3, 9)), (3423, 16, (3, 9)), (3424, 16, (3, 9))]}
OLD_LAYOUTS = [(1, 5), (1, 6), (2, 0), (2, 1), (2, 2)]


def header_for(ver, magic_int):
    magic = struct.pack("<H", magic_int) + b"\r\n"
    ver = tuple(ver)
    if ver >= (3, 7):
        return magic + struct.pack("<III", 0, 0x5F000000, 0x1234)
    if ver >= (3, 3):
        return magic + struct.pack("<II", 0x5F000000, 0x1234)
    return magic + struct.pack("<I", 0x5F000000)


def marshal_version_for(ver):
    ver = tuple(ver)
    if ver >= (3, 4):
        return 4
    if ver >= (2, 5):
        return 2
    if ver >= (2, 4):
        return 1
    return 0


def cases(plan, tier, shard, nshards, host):
    import glob
    import os

    from gen.canon import hx

    # the other five hosts (3.8-3.11, 3.13) read the corpus and every compiled program (native path where the file is the
    # host's own version); the constant-encoding space runs on all hosts in C10, the transplants on the primary host
    secondary = host != common.PRIMARY
    # (iv) the historical corpus, incl. the versions no interpreter exists for: reference = the independent model
    # M-marshal (models/m_marshal.py), whose conformance with the nine real interpreters is replayed below on every
    # farm case of this run
    n = 0
    for f in sorted(glob.glob(os.path.join(common.REPO, "test", "bytecode_*", "*.pyc"))):
        if "dropbox" in f or os.path.getsize(f) > (60000 if tier == "quick" else 400000):
            continue
        n += 1
        if n % nshards == shard:
            yield {"kind": "corpus", "path": os.path.relpath(f, common.REPO)}

    if not secondary:
        # (v) pre-release magics whose file layout equals that of a release with an interpreter (CPython's registry): the
        # release's programs under the pre-release magic and header.  3390/3391 still have the 12-byte header; 3410 is the
        # magic that introduced co_posonlyargcount
        for v, magics_ in sorted(INTERIM.items()):
            for idx, rec in common.read_dataset(plan["progs"][v], shard, nshards):
                if idx < 0 or not rec["id"].endswith("@module") or len(rec["pyc"]) > 3000:
                    continue
                payload = unhx(rec["pyc"])[rec["hdrlen"]:]
                for mi, hdr_len, fver in magics_:
                    hdr = struct.pack("<H", mi) + b"\r\n" + (struct.pack("<III", 0, 0x5F000000, 0x1234) if hdr_len == 16 else
                                                           struct.pack("<II", 0x5F000000, 0x1234) if hdr_len == 12 else struct.pack("<I", 0x5F000000))
                    yield {"kind": "interim", "id": "%s|magic%d" % (rec["id"], mi), "ver": list(common.vt(v)), "tver": list(fver), "pyc": hx(hdr + payload),
                           "hdrlen": len(hdr), "tree": rec["tree"]}
        # (vi) the layouts before 2.3 (16-bit counts; no free/cell variables before 2.1): Python 2.7 programs written in the old
        # layout by the model's own writer (models/m_marshal.dump_tree), expected tree = the 2.7 tree restricted to the fields of
        # that version.  The reader half of the model is validated on the real 1.5-2.2 corpus files; 2.0 has no corpus file
        for idx, rec in common.read_dataset(plan["progs"]["2.7"], shard, nshards):
            if idx < 0 or not rec["id"].endswith("@module") or len(rec["pyc"]) > 3000:
                continue
            for ov in OLD_LAYOUTS:
                try:
                    payload = m_marshal.dump_tree(rec["tree"], ov)
                except (ValueError, struct.error, KeyError):
                    continue    # a value the old layout cannot hold (a count beyond 16 bits, a frozenset ...)
                hdr = struct.pack("<H", m_magic.FINAL[ov]) + b"\r\n" + struct.pack("<I", 0x5F000000)
                yield {"kind": "relayout", "id": "%s|as%d.%d" % (rec["id"], ov[0], ov[1]), "ver": list(ov), "tver": list(ov), "pyc": hx(hdr + payload),
                       "hdrlen": len(hdr), "tree": m_marshal.restrict_tree(rec["tree"], ov)}
    for v in common.REFS:
        src_ver = common.vt(v)
        # (ii) constant shapes: every encoding of the value grammar (dataset shared with C10), whole tree + consumption
        hdr = header_for(src_ver, m_magic.FINAL[src_ver])
        for idx, rec in common.read_dataset(plan["consts"][v], shard, nshards):
            if idx < 0 or secondary:
                continue
            yield {"kind": "consts", "id": rec["id"], "ver": list(src_ver), "tver": list(src_ver), "pyc": hx(hdr) + rec["payload"],
                   "hdrlen": len(hdr), "tree": rec["tree"], "textfloat": rec["textfloat"]}
        native_mv = marshal_version_for(src_ver)
        _, klass = m_magic.layout_class(src_ver)
        for idx, rec in common.read_dataset(plan["progs"][v], shard, nshards):
            if idx < 0:
                continue
            pyc = unhx(rec["pyc"])
            payload = pyc[rec["hdrlen"]:]
            yield {"kind": "prog", "id": rec["id"], "ver": list(src_ver), "tver": list(src_ver),
                   "pyc": rec["pyc"], "hdrlen": rec["hdrlen"], "tree": rec["tree"]}
            if secondary:
                continue
            # transplants: only quick-sized subset in thorough (k=2 pairs add nothing new for the header)
            if tier == "thorough" and "+" in rec["id"]:
                continue
            for tv in klass:
                if tv == src_ver:
                    continue
                # a payload may only travel to a version whose compiler could have emitted it:
                # 3.6/3.7 payloads to 3.0..3.7, 2.7 payloads to 2.3..2.7 etc. (same layout class),
                # in the marshal format version the target reads.
                if v in ("3.7",) and tv < (3, 7):
                    continue  # 3.6 already covers 3.0-3.5
                if v in ("3.9", "3.10") and tv < src_ver:
                    continue
                if v in ("3.12", "3.13") and tv < src_ver:
                    continue
                mv = marshal_version_for(tv)
                tree = rec["tree"]
                pl = payload
                if mv != native_mv:
                    alt = (rec.get("alt") or {}).get(str(mv))
                    if not alt:
                        continue
                    pl = unhx(alt["payload"])
                    tree = alt["tree"] or rec["tree"]
                if (tv >= (3, 10)) != (src_ver >= (3, 10)):
                    tree = rename_linetable(tree, "co_linetable" if tv >= (3, 10) else "co_lnotab")
                hdr = header_for(tv, m_magic.FINAL[tv])
                from gen.canon import hx

                yield {"kind": "transplant", "id": rec["id"], "ver": list(src_ver), "tver": list(tv),
                       "pyc": hx(hdr + pl), "hdrlen": len(hdr), "tree": tree}


def rename_linetable(tree, new):
    """3.8/3.9 <-> 3.10 transplants: same bytes, the field is just called differently"""
    if isinstance(tree, dict):
        if tree.get("t") == "code":
            v = {}
            for k, x in tree["v"].items():
                v[new if k in ("co_lnotab", "co_linetable") else k] = rename_linetable(x, new)
            return {"t": "code", "v": v}
        if isinstance(tree.get("v"), list):
            return {"t": tree["t"], "v": [rename_linetable(e, new) for e in tree["v"]]}
    if isinstance(tree, list):
        return [rename_linetable(e, new) for e in tree]
    return tree


def case_key(case):
    return case.get("pyc") or case["path"]


def describe(case):
    if case["kind"] == "corpus":
        return case
    return {"kind": case["kind"], "program": case["id"], "produced_by": case["ver"], "read_as": case["tver"],
            "pyc_bytes": len(case["pyc"]) // 2}


def canary_cases(plan, tier, host):
    import copy

    for idx, rec in common.read_dataset(plan["progs"]["3.8"], 0, 1):
        if idx < 0:
            continue
        t = copy.deepcopy(rec["tree"])
        t["v"]["co_stacksize"]["v"] = str(int(t["v"]["co_stacksize"]["v"]) + 1)
        yield {"kind": "prog", "id": rec["id"], "ver": [3, 8], "tver": [3, 8], "pyc": rec["pyc"],
               "hdrlen": rec["hdrlen"], "tree": t}
        break


def sig_of_diff(tver, diff):
    path, exp, got = diff
    import re

    leaf = re.sub(r"\[\d+\]", "[]", path) or "top"
    # keep only the last code-field and what follows it
    parts = leaf.split(".")
    tail = [p for p in parts if p.startswith("co_")][-1:] or [leaf]
    after = leaf.split(tail[0])[-1] if tail[0] in leaf else ""
    ek = exp.split('"t": "')[1].split('"')[0] if isinstance(exp, str) and '"t": "' in exp else str(exp)[:20]
    gk = got.split('"t": "')[1].split('"')[0] if isinstance(got, str) and '"t": "' in got else str(got)[:20]
    return "%d.%d:%s%s:%s->%s" % (tver[0], tver[1], tail[0], re.sub(r"(\[\])+", "[]", after), ek, gk)


def run_case(case, ctx):
    import xdis.unmarshal
    from xdis.load import load_module_from_file_object

    if case["kind"] == "corpus":
        return run_corpus(case, ctx)
    tver = tuple(case["tver"])
    data = unhx(case["pyc"])
    hl = case["hdrlen"]
    # model conformance: M-marshal must reproduce the real interpreter's tree on every farm case
    from models import m_marshal

    try:
        mt, used = m_marshal.loads(data[hl:], tver)
        md = tree_diff(case["tree"], mt, nan_loose=(tver < (2, 5) or bool(case.get("textfloat"))))
        if md or used != len(data) - hl:
            ctx.violation("HARNESS:M-marshal-conformance:%d.%d" % tver, "model disagrees with the real interpreter at %s (consumed %d of %d)"
                          % (md, used, len(data) - hl))
        else:
            ctx.count("model_conformance_M-marshal")
    except Exception as e:
        ctx.violation("HARNESS:M-marshal-raises:%d.%d:%s" % (tver + (type(e).__name__,)), repr(e))
    magic_int = struct.unpack("<H", data[:2])[0]
    ctx.count("cases_%s_%d.%d" % (case["kind"], tver[0], tver[1]))
    # (a) the public loader.  A transplant onto the host's own magic would hand foreign bytecode to the
    # built-in marshal (fast path), which CPython does not promise to survive: only the portable reader then.
    import sys

    native_foreign = case["kind"] == "transplant" and tver == sys.version_info[:2]
    try:
        if native_foreign:
            raise _Skip()
        res = load_module_from_file_object(io.BytesIO(data), filename="<c01>")
        co = res[3]
    except _Skip:
        co = None
        ctx.count("native_foreign_skipped")
    except ImportError as e:
        if case["kind"] == "interim" and ("interim" in str(e) or "not supported" in str(e)):
            ctx.count("interim_magics_refused_by_load_module")   # refusing a pre-release is a documented choice of the loader
            return
        ctx.violation("%d.%d:load_module-raises:%s" % (tver[0], tver[1], _exc_kind(e)), str(e)[:300])
        co = None
    except Exception as e:
        ctx.violation("%d.%d:load_module-raises-other:%s" % (tver[0], tver[1], type(e).__name__), str(e)[:300])
        co = None
    if co is not None:
        if tuple(res[0][:2]) != tver:
            ctx.violation("%d.%d:version-reported:%s" % (tver[0], tver[1], res[0][:2]), "wrong version tuple")
        d = tree_diff(case["tree"], xcanon(co, tver), nan_loose=(tver < (2, 5) or bool(case.get("textfloat"))))
        if d:
            ctx.violation(sig_of_diff(tver, d), "load_module tree differs at %s: expected %s got %s" % d)
    # (a') the same loader handed the caller's own code_objects dict, *reused* from file to file as a driver that walks a
    # directory does: what is already in the dict must not change what the next file decodes to
    if co is not None and case["kind"] == "prog":
        ctx.count("routes_code_objects_reused")
        try:
            res3 = load_module_from_file_object(io.BytesIO(data), filename="<c01>", code_objects=_SHARED_CODE_OBJECTS)
            d = tree_diff(case["tree"], xcanon(res3[3], tver), nan_loose=(tver < (2, 5) or bool(case.get("textfloat"))))
            if d:
                ctx.violation("%d.%d:route:code_objects-reused:%s" % (tver[0], tver[1], sig_of_diff(tver, d)),
                              "load_module(..., code_objects=<dict used for %d earlier files>) differs at %s: expected %s got %s" % ((len(_SHARED_CODE_OBJECTS),) + d))
        except Exception as e:
            ctx.violation("%d.%d:route:code_objects-reused:raises:%s" % (tver[0], tver[1], type(e).__name__), str(e)[:300])
        if len(_SHARED_CODE_OBJECTS) > 5000:
            _SHARED_CODE_OBJECTS.clear()
    # (b) the portable unmarshaller directly, with consumption accounting
    payload = data[hl:]
    for tail in (b"", b"\x00", b"N", b"sentinel"):
        fp = io.BytesIO(payload + tail)
        try:
            co2 = xdis.unmarshal.load_code(fp, magic_int)
        except Exception as e:
            ctx.violation("%d.%d:load_code-raises:%s" % (tver[0], tver[1], type(e).__name__), str(e)[:300])
            break
        if fp.tell() != len(payload):
            ctx.violation("%d.%d:consumed:%s" % (tver[0], tver[1], "short" if fp.tell() < len(payload) else "long"),
                          "load_code consumed %d of %d payload bytes (tail %r)" % (fp.tell(), len(payload), tail))
            break
        if tail == b"":
            d = tree_diff(case["tree"], xcanon(co2, tver), nan_loose=(tver < (2, 5) or bool(case.get("textfloat"))))
            if d:
                ctx.violation(sig_of_diff(tver, d), "load_code tree differs at %s: expected %s got %s" % d)


_SHARED_CODE_OBJECTS = {}


def run_corpus(case, ctx):
    import os
    import re

    from models import m_marshal
    from xdis.load import load_module_from_file_object

    path = os.path.join(common.REPO, case["path"])
    m = re.search(r"bytecode_(\d)\.(\d+)(pypy|graal)?", case["path"]) or re.search(r"bytecode_(pypy|graal)(\d)(\d+)", case["path"])
    if m.group(1) in ("pypy", "graal"):
        ver, variant = (int(m.group(2)), int(m.group(3))), m.group(1)
    else:
        ver, variant = (int(m.group(1)), int(m.group(2))), m.group(3) or ""
    vtag = "corpus-%d.%d%s" % (ver[0], ver[1], variant)
    with open(path, "rb") as f:
        data = f.read()
    ctx.count("corpus_files")
    # the header length is whichever of 8 / 12 / 16 lets the independent model consume the file exactly
    model = None
    for hl in (8, 12, 16):
        try:
            t, used = m_marshal.loads(data[hl:], ver)
            if used == len(data) - hl and t.get("t") == "code":
                model = (t, hl)
                break
        except Exception:
            continue
    if variant == "pypy" and ver == (3, 2):
        # PyPy 3.2 marshals identifiers as byte strings; whether they are text or bytes has no reference here
        # (the same open question as the C12 known finding about PyPy 3.2 names)
        ctx.count("corpus_no_reference_%s" % vtag)
        return
    if model is None:
        ctx.count("corpus_model_cannot_parse_%s" % vtag)  # no reference for this file (e.g. PyPy-only type codes)
        return
    try:
        res = load_module_from_file_object(io.BytesIO(data), filename=path)
    except Exception as e:
        ctx.violation("%s:load-raises:%s" % (vtag, type(e).__name__), "%s: %s" % (case["path"], str(e)[:200]))
        return
    ctx.count("corpus_compared_%s" % vtag)
    d = tree_diff(model[0], xcanon(res[3], ver), nan_loose=ver < (2, 5))
    if d:
        ctx.violation(sig_of_diff(ver, d).replace("%d.%d:" % ver, vtag + ":", 1), "%s differs from the reference model at %s: expected %s got %s" % ((case["path"],) + d))


class _Skip(Exception):
    pass


def _exc_kind(e):
    s = str(e)
    import re

    m = re.search(r"<class '([A-Za-z_.]+)'>", s)
    return m.group(1) if m else "ImportError"
