# C19 - freeze() encodes a line table that decodes back to the same mapping.
import itertools

from gen import mdis as M
from gen.canon import hx
from vlib import common

ID = "C19"
LEVEL = "exploration"
TECHNIQUE = ("bounded exhaustive enumeration of {offset: line} mappings (<= 3 entries; offset gaps 2..600 incl. 254/255/256/510; "
             "line gaps 0..300 incl. 127/128/255/256 and, for signed formats, -1..-300) x first line {1, 1000} for the portable "
             "code types Code15, Code2, Code3, Code38, Code310; freeze() output decoded by xdis's own line-start routine and "
             "by the matching CPython (2.7, 3.6-3.10, via the oracle server), compared as offset->line functions")
TEXT = ("Every mapping of the bounded space is given to the real constructor and freeze(); the encoded table must decode, "
        "under xdis's findlinestarts for that code type and under dis.findlinestarts of the matching interpreter on a real "
        "code object carrying the bytes, to a line-at-offset function equal to the input mapping at every offset of the code.")
NOTE = ("Trusted: dis.findlinestarts of 2.7.18, 3.6.15, 3.8.18, 3.10.13 (one per code type), M-lines for the unsigned "
        "pre-3.6 reading of Code3/Code15 (conformance-checked in C05). Mappings with more than 3 entries are outside the bound.")
RULE = ("case = one block of mappings for one (code type, first line); each mapping is one evaluation (coverage.counts."
        "mappings); distinct = distinct (code type, first line, mapping)")
ASSUMPTIONS = ["decreasing line numbers are generated only for the formats that can express them (3.6+ lnotab, 3.10)",
               "a list of pairs instead of a dict is rejected by the constructors' own type check and is not part of the statement"]
OGAPS = [2, 254, 255, 256, 510, 600]
LGAPS = [0, 1, 127, 128, 255, 256, 300]
NEG = [-1, -127, -128, -300]
# (code type, constructor version, decoders)
TYPES = [("Code15", (1, 5), [("xdis-pre36", None), ("M-lines-unsigned", None)], False),
         ("Code2", (2, 7), [("xdis-pre36", None), ("cpython", "2.7")], False),
         ("Code3", (3, 5), [("xdis-pre36", None), ("M-lines-unsigned", None)], False),
         ("Code3", (3, 6), [("xdis-36", None), ("cpython", "3.6")], True),
         ("Code38", (3, 8), [("xdis", None), ("cpython", "3.8")], True),
         ("Code310", (3, 10), [("xdis", None), ("cpython", "3.10")], True)]


def bounds(tier):
    return {"entries": 3 if tier == "quick" else 4, "four_entry_alphabet": "offset gaps 2/255/256/600 x line gaps 0/1/127/128/300/-1/-128 (thorough)", "offset_gaps": OGAPS, "line_gaps": LGAPS, "negative_line_gaps": NEG, "first_lines": [1, 1000]}


def hosts(tier):
    return common.HOSTS


def prepare(tier):
    return {"tier": tier}


def mappings(signed, fl, tier="quick"):
    gaps = [(o, l) for o in OGAPS for l in (LGAPS + (NEG if signed else []))]
    # thorough: one more entry over a reduced gap alphabet (the boundary values only)
    gaps3 = [(o, l) for o in (2, 255, 256, 600) for l in ([0, 1, 127, 128, 300] + ([-1, -128] if signed else []))]
    for n in ((1, 2) if tier == "quick" else (1, 2, 3)):
        for combo in itertools.product(gaps if n < 3 else gaps3, repeat=n):
            off, line = 0, fl
            m = [(0, fl)]
            ok = True
            for (o, l) in combo:
                off += o
                line += l
                if line < 1:
                    ok = False
                    break
                m.append((off, line))
            if ok:
                yield m
                # the same mapping without its entry at offset 0: the table then starts with a gap (in the 3.10 format a
                # leading range without a line, in the lnotab formats a first entry with a byte increment)
                if n < 3 and len(m) > 1:
                    yield m[1:]


def cases(plan, tier, shard, nshards, host):
    n = 0
    for ti, (tname, ver, decs, signed) in enumerate(TYPES):
        for fl in (1, 1000):
            ms = list(mappings(signed, fl, tier))
            for i in range(0, len(ms), 300):
                n += 1
                if n % nshards == shard:
                    yield {"type": ti, "firstline": fl, "mappings": ms[i:i + 300]}


def case_key(c):
    return "%d:%d:%s" % (c["type"], c["firstline"], c["mappings"][0])  + str(len(c["mappings"]))


def describe(c):
    return {"code_type": TYPES[c["type"]][0], "for_version": TYPES[c["type"]][1], "first_line": c["firstline"], "first_mappings": c["mappings"][:3]}


def canary_cases(plan, tier, host):
    yield {"type": 4, "firstline": 1, "mappings": [[(0, 1), (6, 2)]], "canary": True}


def make_code(tname, ver, mapping, fl, codelen):
    from xdis.codetype import to_portable

    code = b"\x09" * codelen if ver < (3, 6) else b"\x09\x00" * (codelen // 2)
    return to_portable(co_argcount=0, co_posonlyargcount=0, co_kwonlyargcount=0, co_nlocals=0, co_stacksize=1, co_flags=0,
                       co_code=code, co_consts=(None,), co_names=(), co_varnames=(), co_filename="<c19>", co_name="f", co_qualname="f",
                       co_firstlineno=fl, co_lnotab=dict(mapping), co_freevars=(), co_cellvars=(), co_exceptiontable=b"",
                       version_triple=ver + (0,))


def line_function(pairs, codelen, step):
    """line at every instruction offset, from (offset, line) start pairs"""
    out = {}
    pairs = sorted((o, l) for o, l in pairs if l is not None)
    cur = None
    k = 0
    for off in range(0, codelen, step):
        while k < len(pairs) and pairs[k][0] <= off:
            cur = pairs[k][1]
            k += 1
        out[off] = cur
    return out


def delta_class(mapping, signed):
    cl = set()
    for (o1, l1), (o2, l2) in zip(mapping, mapping[1:]):
        do, dl = o2 - o1, l2 - l1
        cl.add("off>=256" if do >= 256 else "off<256")
        cl.add("line<0" if dl < 0 else ("line>=128" if dl >= 128 else "line<128"))
    if mapping and mapping[0][0] > 0:
        return "leading-gap"
    order = ["line<0", "line>=128", "off>=256", "line<128", "off<256"]
    for c in order:
        if c in cl:
            return c
    return "single"


def run_case(case, ctx):
    import xdis.cross_dis as X

    tname, ver, decs, signed = TYPES[case["type"]]
    fl = case["firstline"]
    step = 1 if ver < (3, 6) else 2
    frozen = []
    for mapping in case["mappings"]:
        mapping = [tuple(x) for x in mapping]
        ctx.count("mappings")
        codelen = mapping[-1][0] + 4
        cls = delta_class(mapping, signed)
        try:
            p = make_code(tname, ver, mapping, fl, codelen)
            if type(p).__name__ != tname:
                ctx.violation("%s:wrong-type" % tname, "to_portable gave %s" % type(p).__name__)
                continue
            p.freeze()
            table = p.co_linetable if tname == "Code310" else p.co_lnotab
            # a line table is binary data: a str would be re-encoded (UTF-8) by the writer, doubling every byte >= 0x80
            if not isinstance(table, (bytes, bytearray)):
                ctx.violation("%s:freeze-leaves:%s" % (tname, type(table).__name__), "after freeze() the table is a %s for %s" % (type(table).__name__, mapping))
                continue
            table = bytes(table)
        except Exception as e:
            ctx.violation("%s:freeze-raises:%s:%s" % (tname, type(e).__name__, cls), "%r for mapping %s first line %d" % (e, mapping, fl))
            continue
        if case.get("canary"):
            table = table[:-1] + bytes([table[-1] ^ 1])
            p.co_lnotab = table
        frozen.append((mapping, codelen, cls, p, table))
    # decoders
    answers = {}
    for dname, dver in decs:
        if dname == "cpython" and frozen:
            reqs = [{"op": "linestarts", "table": hx(t), "firstlineno": fl, "codelen": cl} for (m, cl, c, p, t) in frozen]
            answers[dname] = common.oracle_batch(dver, reqs)
    for i, (mapping, codelen, cls, p, table) in enumerate(frozen):
        want = line_function(mapping, codelen, step)
        want0 = want
        for dname, dver in decs:
            want = want0
            try:
                if dname == "xdis":
                    got = list(X.findlinestarts(p))
                elif dname == "xdis-36":
                    got = list(X.findlinestarts_36(p))
                elif dname == "xdis-pre36":
                    got = list(X.findlinestarts_pre36(p))
                elif dname == "M-lines-unsigned":
                    got = M.mlines_lnotab(table, fl, codelen, False, False)
                else:
                    a = answers[dname][i]
                    if "error" in a:
                        ctx.violation("%s:cpython-rejects:%s" % (tname, cls), "CPython %s: %s for table %s (mapping %s)" % (dver, a["error"], hx(table), mapping))
                        continue
                    got = a["linestarts"]
            except Exception as e:
                ctx.violation("%s:decode-raises:%s:%s:%s" % (tname, dname, type(e).__name__, cls), "%r on table %s (mapping %s)" % (e, hx(table), mapping))
                continue
            gotf = line_function(got, codelen, step)
            if mapping[0][0] > 0:
                # nothing is said about the offsets before the first entry of the mapping
                gotf = dict((o, l) for o, l in gotf.items() if o >= mapping[0][0])
                want = dict((o, l) for o, l in want.items() if o >= mapping[0][0])
            if gotf != want:
                off = next(o for o in sorted(want) if gotf.get(o) != want[o])
                ctx.violation("%s:%s:%s" % (tname, "cpython" if dname == "cpython" else dname, cls),
                              "mapping %s first line %d -> table %s decodes (%s) to line %r at offset %d, expected %r"
                              % (mapping, fl, hx(table), dname, gotf.get(off), off, want[off]))


def summarize(plan, counts, extras, results):
    return {"evaluations": counts.get("mappings", 0), "distinct_nontrivial": counts.get("mappings", 0)}
