# C08 - magic-number knowledge is coherent and agrees with CPython's registry.
import io
import re
import struct

from gen.canon import hx, unhx
from models import m_magic
from vlib import common

ID = "C08"
LEVEL = "exploration"
EXHAUSTIVE = True
TECHNIQUE = ("complete enumeration of all 65536 magic integers and of every row of xdis's magic / release-name tables, "
             "against CPython's own registry (parsed from importlib/_bootstrap_external.py) and the MAGIC_NUMBER of the "
             "nine installed interpreters; every accepted magic is pushed through load_module and get_opcode")
TEXT = ("The whole space is finite and enumerated on every run: 65536 ints both ways through int2magic/magic2int, every "
        "registry row, every release name of xdis.magics.magics, every magic load_module accepts (all 65536 tried), and "
        "sysinfo2magic on all six hosts. Complete for what the statement quantifies over.")
NOTE = ("Trusted: the registry comment in CPython 3.13's importlib/_bootstrap_external.py (1.5 .. 3.13), MAGIC_NUMBER of "
        "the nine installed interpreters, models/m_magic.FINAL (checked against both). Non-CPython magics (PyPy, Graal, "
        "Jython, dropbox): coherence only.")
RULE = ("cases: 64 blocks of 1024 magic ints (each int: inverse laws both ways + header-only load_module + opcode table "
        "lookup when accepted), one case per registry row, one per release name in xdis.magics.magics, one per host for "
        "sysinfo2magic; distinct = distinct magic ints / rows / names")
ASSUMPTIONS = ["CPython registry comment is the authority for which magic belongs to which release series",
               "interim magics explicitly rejected by load_module are 'not accepted' and need no opcode table"]


def hosts(tier):
    return common.HOSTS


def prepare(tier):
    ops = common.datasets("opcodes", common.REFS)
    real = {}
    for v, p in ops.items():
        for i, rec in common.read_dataset(p):
            if i >= 0:
                real[v] = {"magic": rec["magic"], "version_info": rec["version_info"]}
    reg = [[m, list(v), tag] for (m, v, tag) in m_magic.registry()]
    # model conformance: FINAL agrees with the registry and with the real interpreters
    regset = {(m, tuple(v)) for m, v, _ in reg}
    for v, m in m_magic.FINAL.items():
        assert (m, v) in regset, ("M-magic FINAL disagrees with registry", v, m)
    for v, r in real.items():
        assert struct.unpack("<H", unhx(r["magic"])[:2])[0] == m_magic.FINAL[common.vt(v)], ("M-magic vs interpreter", v)
    return {"real": real, "registry": reg}


def cases(plan, tier, shard, nshards, host):
    n = 0
    items = [{"kind": "host", "host": host, "real": plan["real"]}]
    if host == common.PRIMARY:
        items += [{"kind": "ints", "lo": lo, "hi": lo + 1024} for lo in range(0, 65536, 1024)]
        items += [{"kind": "registry", "row": r} for r in plan["registry"]]
        items.append({"kind": "names", "reg": plan["registry"]})
    for it in items:
        if n % nshards == shard:
            yield it
        n += 1


def case_key(c):
    return repr(sorted((k, repr(v)) for k, v in c.items() if k not in ("real", "reg")))


def describe(c):
    return {k: v for k, v in c.items() if k != "real"}


def canary_cases(plan, tier, host):
    yield {"kind": "registry", "row": [3413, [3, 9], "canary"]}


def run_case(case, ctx):
    from xdis import magics as X

    k = case["kind"]
    if k == "ints":
        from xdis.disasm import get_opcode
        from xdis.load import load_module_from_file_object
        from xdis.magics import magic_int2tuple
        from xdis.load import is_pypy

        for n in range(case["lo"], case["hi"]):
            ctx.count("ints")
            m = X.int2magic(n)
            if X.magic2int(m) != n:
                ctx.violation("magic2int(int2magic(%d))" % n, "gives %r" % X.magic2int(m))
            m4 = struct.pack("<H", n) + b"\r\n"
            if n not in (39170, 39171) and X.int2magic(X.magic2int(m4)) != m4:
                ctx.violation("int2magic(magic2int(%d))" % n, "gives %r" % X.int2magic(X.magic2int(m4)))
            # is it accepted?  header-only load of a file that is long enough
            try:
                res = load_module_from_file_object(io.BytesIO(m4 + b"\0" * 46), get_code=False)
            except ImportError:
                ctx.count("magics_rejected")
                continue
            except Exception:
                # not accepted; the exception *type* is C11's business, not this property's
                ctx.count("magics_rejected_with_other_exception")
                continue
            ctx.count("magics_accepted")
            try:
                vt = magic_int2tuple(n)
                opc = get_opcode(vt, is_pypy(n, "<c08>"))
                if not hasattr(opc, "opmap") or not hasattr(opc, "findlabels"):
                    raise ValueError("not an opcode table")
                if tuple(opc.version_tuple[:2]) != tuple(vt[:2]):
                    ctx.violation("accepted-table-version:%d" % n, "magic %d is %s but its table is for %s" % (n, vt, opc.version_tuple))
                if tuple(res[0][:2]) != tuple(vt[:2]):
                    ctx.violation("accepted-version:%d" % n, "load_module says %s, magic_int2tuple %s" % (res[0], vt))
            except Exception as e:
                ctx.violation("accepted-no-table:%d" % n, "magic %d (%s) loads but has no version/opcode table: %r"
                              % (n, X.magicint2version.get(n), e))
                continue
            # the other public routes from a (version, variant) to the table: the same table must come out
            name = X.magicint2version.get(n, "")
            # the implementation a magic belongs to: the registry name; magic 48 is registered under a CPython alpha name
            # but is the PyPy 3.2 magic (is_pypy), so the loader's flag counts as well
            variant = "pypy" if ("pypy" in name or is_pypy(n, "<c08>")) else ("Graal" if "Graal" in name else None)
            if "pypy" in name and not is_pypy(n, "<c08>"):
                ctx.violation("registered-pypy-not-flagged:%d" % n, "magic %d is registered as %s but load.is_pypy() says it is not PyPy" % (n, name))
            for route in ("get_opcode_module", "make_std_api"):
                ctx.count("table_routes")
                try:
                    if route == "get_opcode_module":
                        from xdis.op_imports import get_opcode_module

                        t2 = get_opcode_module(tuple(vt), variant) if variant else get_opcode_module(tuple(vt))
                        om = t2.opmap
                    else:
                        import xdis.std

                        api = xdis.std.make_std_api(tuple(vt), variant) if variant else xdis.std.make_std_api(tuple(vt))
                        om = api.opmap
                    if variant != "Graal" and dict(om) != dict(opc.opmap):
                        ctx.violation("table-route-differs:%s:%d" % (route, n), "magic %d (%s): %s(%r, %r) gives another table than disasm.get_opcode"
                                      % (n, name, route, tuple(vt), variant))
                except Exception as e:
                    ctx.violation("table-route-raises:%s:%s:%d" % (route, type(e).__name__, n), "magic %d (%s): %s(%r, %r) raised %r"
                                  % (n, name, route, tuple(vt), variant, e))
    elif k == "registry":
        m, v, tag = case["row"]
        v = tuple(v)
        ctx.count("registry_rows")
        if m not in X.magicint2version:
            ctx.violation("registry-missing:%d" % m, "CPython registry lists %d for %d.%d%s; xdis does not know it" % (m, v[0], v[1], tag))
            return
        try:
            got = X.magic_int2tuple(m)[:2]
        except Exception as e:
            ctx.violation("registry-tuple:%d" % m, "magic_int2tuple(%d) raised %r" % (m, e))
            return
        if tuple(got) != v:
            ctx.violation("registry-version:%d" % m, "registry says %d is %d.%d, xdis says %s (%s)" % (m, v[0], v[1], got, X.magicint2version[m]))
        b = struct.pack("<H", m) + b"\r\n"
        if X.versions.get(b) != X.magicint2version[m] or b not in X.by_magic:
            ctx.violation("registry-tables:%d" % m, "versions/by_magic rows disagree with magicint2version")
    elif k == "names":
        by_name = {}
        for m_, nm_ in X.magicint2version.items():
            by_name.setdefault(nm_, []).append(m_)
        for nm_, ms_ in sorted(by_name.items()):
            ctx.count("registered_names")
            if nm_ in X.magics and X.magic2int(X.magics[nm_]) not in ms_:
                ctx.violation("name-roundtrip:%s" % nm_, "magic(s) %s are registered as %r, but magics[%r] is %d" % (ms_, nm_, nm_, X.magic2int(X.magics[nm_])))
        for name, mg in sorted(X.magics.items(), key=lambda kv: str(kv[0])):
            ctx.count("release_names")
            if not isinstance(name, str):
                continue
            if X.by_version.get(name) is None and name not in X.canonic_python_version:
                ctx.violation("name-unindexed:%s" % name, "release name not in by_version / canonic_python_version")
            # a pre-release name in any of the spellings the tables use ("3.6b2", "3.8.0a1", "3.7.0beta3", "3.12.0rc2"): its magic
            # must be one the CPython registry lists for that pre-release
            qm = re.match(r"^(\d)\.(\d+)(?:\.0)?(a|alpha|b|beta|rc|c|candidate)(\d+)$", name)
            if qm:
                tag = {"a": "a", "alpha": "a", "b": "b", "beta": "b", "rc": "rc", "c": "rc", "candidate": "rc"}[qm.group(3)] + qm.group(4)
                qv = (int(qm.group(1)), int(qm.group(2)))
                rows = [m_ for (m_, v_, t_) in case["reg"] if tuple(v_) == qv]
                listed = [m_ for (m_, v_, t_) in case["reg"] if tuple(v_) == qv and t_ == tag]
                # alphas are left out: the registry labels a magic with the release "in development" and those labels were
                # renumbered between CPython versions (3.2a0/a1/a2 became a1/a2/a3); beta and candidate labels are stable
                if listed and not tag.startswith("a"):
                    ctx.count("pre_release_names_with_registry_rows")
                    # the registry tags a magic with the *first* pre-release that wrote it; that pre-release may have written
                    # several (all rows with its tag), nothing else
                    if X.magic2int(mg) not in listed:
                        ctx.violation("pre-release-name-magic:%s" % name, "magics[%r] is %d, CPython's registry lists %s for %d.%d%s" % (name, X.magic2int(mg), listed, qv[0], qv[1], tag))
            # a pre-release the tables name ("3.8.0a1", "3.12.0rc2"): sysinfo2magic of that interpreter's sys.version_info
            pm = re.match(r"^(\d)\.(\d+)(?:\.(\d+))?(a|alpha|b|beta|rc|c|candidate)(\d+)$", name)
            if pm:
                ctx.count("pre_release_names")
                vi = (int(pm.group(1)), int(pm.group(2)), int(pm.group(3) or 0),
                      {"a": "alpha", "alpha": "alpha", "b": "beta", "beta": "beta", "rc": "candidate", "c": "candidate", "candidate": "candidate"}[pm.group(4)], int(pm.group(5)))
                try:
                    got = X.magic2int(X.sysinfo2magic(vi))
                    # the tables spell one pre-release in several ways ("3.9.0a2", "3.9.0alpha2") and the rows do not always agree:
                    # any magic they give for this pre-release is accepted
                    lv = {"alpha": ("a", "alpha"), "beta": ("b", "beta"), "candidate": ("rc", "c", "candidate")}[vi[3]]
                    alts = set(X.magic2int(X.magics[n_]) for n_ in ["%s%s%d" % (pre, sp, vi[4]) for pre in ("%d.%d.%d" % vi[:3], "%d.%d" % vi[:2]) for sp in lv]
                               if n_ in X.magics and (vi[2] == 0 or n_.startswith("%d.%d.%d" % vi[:3])))
                    if got not in alts:
                        ctx.violation("sysinfo2magic-pre-release:%s" % name, "sysinfo2magic(%r) gives %d, the tables say that pre-release writes %s" % (vi, got, sorted(alts)))
                except Exception as e:
                    ctx.violation("sysinfo2magic-pre-release-raises:%s" % name, "sysinfo2magic(%r) raised %r" % (vi, e))
            mm = re.match(r"^(\d)\.(0|[1-9]\d*)(?:\.(\d+))?$", name)  # '3.000' is Python 3000, not a release
            if not mm:
                continue
            v = (int(mm.group(1)), int(mm.group(2)))
            if v not in m_magic.FINAL:
                continue
            ctx.count("release_names_with_reference")
            patch = None if mm.group(3) is None else int(mm.group(3))
            exp = [m_magic.FINAL[v]] + m_magic.ALSO_RELEASED.get(v, [])
            if v == (3, 5) and patch is not None:
                exp = [3351] if patch >= 2 else [3350]
            got = X.magic2int(mg)
            if got not in exp:
                ctx.violation("name-magic:%s" % name, "magics[%r] is %d, that release writes %s" % (name, got, exp))
            if patch is not None:
                try:
                    s = X.sysinfo2magic((v[0], v[1], patch, "final", 0))
                    if X.magic2int(s) not in exp:
                        ctx.violation("sysinfo2magic:%s" % name, "gives %d, release writes %s" % (X.magic2int(s), exp))
                except Exception as e:
                    ctx.violation("sysinfo2magic-raises:%s" % name, repr(e))
    elif k == "host":
        import sys

        ctx.count("hosts")
        try:
            from importlib.util import MAGIC_NUMBER

            if X.sysinfo2magic() != MAGIC_NUMBER:
                ctx.violation("host-magic:%d.%d" % sys.version_info[:2], "sysinfo2magic() %r != MAGIC_NUMBER %r" % (X.sysinfo2magic(), MAGIC_NUMBER))
        except Exception as e:
            ctx.violation("host-magic-raises:%d.%d" % sys.version_info[:2], repr(e))
        for v, r in sorted(case["real"].items()):
            vi = tuple(r["version_info"])
            for level, serial in (("candidate", 1), ("candidate", 2), ("candidate", 3)):
                ctx.count("release_candidates")
                try:
                    got = X.sysinfo2magic((vi[0], vi[1], 0, level, serial))
                    # a release candidate writes the magic of its final release (no magic changes after beta)
                    if X.magic2int(got) != m_magic.FINAL[common.vt(v)] and not (common.vt(v) == (3, 5)):
                        ctx.violation("sysinfo2magic-rc:%s" % v, "sysinfo2magic(%r) = %d, %s final writes %d" % ((vi[0], vi[1], 0, level, serial), X.magic2int(got), v, m_magic.FINAL[common.vt(v)]))
                except Exception as e:
                    ctx.violation("sysinfo2magic-rc-raises:%s" % v, "sysinfo2magic(%r) raised %r" % ((vi[0], vi[1], 0, level, serial), e))
        for v, r in sorted(case["real"].items()):
            ctx.count("real_interpreters")
            try:
                got = X.sysinfo2magic(tuple(r["version_info"]))
                if hx(got) != r["magic"]:
                    ctx.violation("real-magic:%s" % v, "sysinfo2magic(%s) = %s, interpreter writes %s" % (r["version_info"], hx(got), r["magic"]))
            except Exception as e:
                ctx.violation("real-magic-raises:%s" % v, repr(e))
