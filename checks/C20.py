# C20 - xdis.std is a faithful drop-in for the host's dis module.
import io
import sys
import types
import warnings

from gen.canon import unhx
from vlib import common, xinst
from vlib.xargval import xargval

ID = "C20"
LEVEL = "exploration"
TECHNIQUE = ("bounded exhaustive enumeration on each of the six hosts: every kind of object dis accepts (function, bound method, "
             "class, generator, coroutine, async generator, code object, source string) built from a fixed module plus every "
             "code object and source string of all G-programs x first_line in {None, 1, 100, co_firstlineno, 0}; same-named "
             "xdis.std functions compared with the host's dis; make_std_api(v) for the nine reference versions compared with "
             "the ground truth each interpreter v produced for its own code")
TEXT = ("For every object and first_line value of the bounded space xdis.std.get_instructions / Bytecode must yield the host "
        "dis's opcode, opname, arg, offset, is_jump_target, starts_line (incl. the first_line shift) and argval for table-"
        "indexed and jump operands; findlabels, findlinestarts and the module tables must be equal; wherever a dis function "
        "accepts an object the same-named xdis.std function must not raise. make_std_api(v) must decode version-v code as "
        "interpreter v's own dis did (dataset of C02-C05).")
NOTE = ("Trusted: the host's dis module (3.8-3.13) and the oracle-farm ground truth for the nine versions. CACHE pseudo-"
        "instructions tolerated as in DESIGN 3.2; argrepr/display text not compared; stack_effect is C15's.")
RULE = ("case = one program (all its code objects and its source string) or the fixed object zoo on one host, or one program "
        "of reference version v through make_std_api(v); distinct = distinct (host, program)")
ASSUMPTIONS = ["dis.get_instructions of 3.11+ omits exception-handler targets from is_jump_target; dis.Bytecode includes them: "
               "each xdis.std function is compared with the same-named dis function"]
ZOO_SRC = '''
import asyncio
def fn(a, b=2):
    c = [i for i in range(a) if i != b]
    try:
        return c[0] + b
    except IndexError:
        return None
class K(object):
    attr = 1
    @staticmethod
    def sm(a):
        return a + 1
    @classmethod
    def cm(cls, a):
        return a + 2
    def meth(self, x):
        for i in range(x):
            if i:
                continue
        return x
def gen(n):
    for i in range(n):
        yield i
async def coro(x):
    await asyncio.sleep(0)
    return x
async def agen(x):
    yield x
lam = lambda q: q * 2
'''
# functions that are *executed* before being disassembled: from 3.11 on the interpreter rewrites the code of a running
# function in place (specialised opcodes, live inline caches in _co_code_adaptive); dis shows the de-optimised co_code
WARM_SRC = '''
G = 3
class P(object):
    def __init__(self):
        self.x = 1
        self.items = [1, 2, 3]
    def inc(self, k):
        self.x += k
        return self.x
def w_loop(n):
    t = 0
    for i in range(n):
        t += i * G
        if t > 100:
            t -= 7
    return t
def w_attr(p, n):
    s = 0
    for _ in range(n):
        s += p.x + len(p.items) + p.inc(1)
        p.items[0] = s
    return s, p.items[0]
def w_calls(n):
    out = []
    for i in range(n):
        out.append(str(i) + "x")
        d = {"k": i}
        out.append(d["k"] == i and isinstance(d, dict))
    a, b = out[0], out[1]
    return a, b
def w_compare(xs):
    c = 0
    for v in xs:
        if v is None:
            continue
        if v > 1 and v != 3 or v in (5, 6):
            c += 1
        while c > 3:
            c -= 2
    return c
'''
FIRST_LINES = [None, 1, 100, "own", 0]


def hosts(tier):
    return common.HOSTS


def workers_for_host(tier, host):
    return {"3.12": 5, "3.11": 2, "3.13": 3}.get(host, 2)


def bounds(tier):
    return {"first_lines": [str(x) for x in FIRST_LINES], "program_statements_k": 1, "make_std_api_versions": common.REFS}


def prepare(tier):
    return {"progs": common.datasets("progs", common.REFS, 1), "tier": tier}


def cases(plan, tier, shard, nshards, host):
    from gen import programs as G

    n = 0
    if shard == 0:
        yield {"kind": "zoo"}
        yield {"kind": "tables"}
    if shard == 1 % nshards:
        yield {"kind": "warm"}
        yield {"kind": "traceback"}
    for pid, src in G.enumerate_programs(sys.version_info[:2], 1):
        n += 1
        if n % nshards == shard:
            if tier == "quick" and (len(src) > 1500 or (host != common.PRIMARY and not pid.endswith("@module")) or (host == common.PRIMARY and not pid.endswith(("@module", "@nested")))):
                continue
            yield {"kind": "prog", "id": pid, "src": src}
    if host == common.PRIMARY or tier == "thorough":
        for v in common.REFS:
            for idx, rec in common.read_dataset(plan["progs"][v], shard, nshards):
                if idx < 0 or (tier == "quick" and (len(rec["pyc"]) > 2400 or not rec["id"].endswith(("@module", "@nested")))):
                    continue
                yield {"kind": "api", "ver": rec["ver"], "id": rec["id"], "pyc": rec["pyc"],
                       "codes": [{"name": c["name"], "insts": c["insts"], "labels": c["labels"], "linestarts": c["linestarts"]} for c in rec["codes"]]}


def case_key(c):
    return "%s:%s:%s" % (c["kind"], c.get("ver"), c.get("id"))


def describe(c):
    return {k: v for k, v in c.items() if k not in ("src", "pyc", "codes")}


def canary_cases(plan, tier, host):
    yield {"kind": "canary"}


def walk(co):
    out = [co]
    for c in co.co_consts:
        if isinstance(c, types.CodeType):
            out.extend(walk(c))
    return out


def ref_insts(dis, obj, first_line, api="get_instructions"):
    host = sys.version_info[:2]
    if api == "Bytecode":
        it = dis.Bytecode(obj, first_line=first_line)
    else:
        it = dis.get_instructions(obj, first_line=first_line)
    out = []
    for i in it:
        if host >= (3, 13):
            sl = i.line_number if i.starts_line else None
        else:
            sl = i.starts_line
        out.append((i.offset, i.opcode, i.opname, i.arg, i.argval, bool(i.is_jump_target), sl))
    return out


def cmp_stream(ctx, htag, what, xs, rs, catops, jumpops, ver, jt_tolerated=()):
    xs = [i for i in xs if i.opname != "CACHE"]
    rs = [r for r in rs if r[2] != "CACHE"]
    if len(xs) != len(rs):
        ctx.violation("%s:%s:count" % (htag, what.split("|")[0]), "%d instructions, dis %d (%s)" % (len(xs), len(rs), what))
        return
    for i, r in zip(xs, rs):
        off, op, name, arg, argval, jt, sl = r
        for fld, g, w in (("offset", i.offset, off), ("opcode", i.opcode, op), ("opname", i.opname, name), ("arg", i.arg, arg),
                          ("is_jump_target", bool(i.is_jump_target), jt), ("starts_line", i.starts_line, sl)):
            if fld == "is_jump_target" and off in jt_tolerated:
                continue
            if g != w:
                ctx.violation("%s:%s:%s" % (htag, what.split("|")[0], fld), "%s at %d: %s = %r, dis %r (%s)" % (name, off, fld, g, w, what))
                return
        if arg is not None and (op in catops or op in jumpops) and type(argval).__name__ != "_Unknown":
            gv = xargval(i.argval, ver, is_compare=(op in catops and catops[op] == "cmp"))
            wv = xargval(argval, ver, is_compare=(op in catops and catops[op] == "cmp"))
            if gv != wv:
                ctx.violation("%s:%s:argval:%s" % (htag, what.split("|")[0], name), "%s at %d: argval %s, dis %s (%s)" % (name, off, str(gv)[:80], str(wv)[:80], what))
                return


def host_ops():
    import dis
    import opcode

    cat = {}
    for lst, tag in ((opcode.hasconst, "const"), (opcode.hasname, "name"), (opcode.haslocal, "local"), (opcode.hasfree, "free"), (opcode.hascompare, "cmp")):
        for o in lst:
            cat.setdefault(o, tag)
    if sys.version_info[:2] >= (3, 13):
        for n in ("LOAD_FAST_LOAD_FAST", "STORE_FAST_LOAD_FAST", "STORE_FAST_STORE_FAST"):
            cat.setdefault(opcode.opmap[n], "local")
    jumps = set(opcode.hasjrel) | set(opcode.hasjabs)
    return cat, jumps


def check_object(ctx, htag, kind, obj, first_lines):
    import dis

    import xdis.std as X

    host = sys.version_info[:2]
    cat, jumps = host_ops()
    # acceptance parity + data equality
    for fl in first_lines:
        for api in ("get_instructions", "Bytecode"):
            try:
                co = X.Bytecode(obj).codeobj if fl == "own" else None
            except Exception:
                co = None
            try:
                f = None
                if fl == "own":
                    import xdis.cross_dis

                    f = xdis.cross_dis.get_code_object(obj).co_firstlineno
                elif fl is not None:
                    f = fl
                rs = ref_insts(dis, obj, f, api)
            except Exception:
                ctx.count("rejected_by_host_dis")
                continue
            ctx.count("streams_compared")
            what = "%s|%s first_line=%r %s" % (api, kind, fl, getattr(obj, "__name__", type(obj).__name__))
            try:
                if api == "Bytecode":
                    xs = list(X.Bytecode(obj, first_line=f))
                else:
                    xs = list(X.get_instructions(obj, first_line=f))
            except Exception as e:
                ctx.violation("%s:%s:raises:%s:%s" % (htag, api, type(e).__name__, kind), "%r (%s)" % (e, what))
                continue
            tol = ()
            if host >= (3, 13):
                # 3.13's dis also labels the first and last instruction of every exception-table range (its listing
                # prints "L1 to L2 -> L3"); those are not jump targets in the sense of C04 and are not compared
                try:
                    import xdis.cross_dis

                    cobj = xdis.cross_dis.get_code_object(obj)
                    tol = set()
                    for e in dis._parse_exception_table(cobj):
                        tol.add(e.start)
                        tol.add(e.end)
                    tol -= set(dis.findlabels(cobj.co_code)) | set(e.target for e in dis._parse_exception_table(cobj))
                except Exception:
                    tol = ()
            cmp_stream(ctx, htag, what, xs, rs, cat, jumps, host, tol)
    for fname in ("dis", "code_info", "show_code"):
        buf = io.StringIO()
        try:
            if fname == "code_info":
                getattr(dis, fname)(obj)
            else:
                getattr(dis, fname)(obj, file=buf)
        except Exception:
            continue
        ctx.count("acceptance_checks")
        try:
            buf2 = io.StringIO()
            if fname == "code_info":
                getattr(X, fname)(obj)
            else:
                getattr(X, fname)(obj, file=buf2)
        except Exception as e:
            ctx.violation("%s:accepts:%s:%s:%s" % (htag, fname, kind, type(e).__name__), "dis.%s accepts a %s, xdis.std.%s raises %r" % (fname, kind, fname, e))


def check_code(ctx, htag, co, where):
    import dis

    import xdis.std as X

    ctx.count("code_objects")
    try:
        a, b = sorted(X.findlabels(co.co_code)), sorted(dis.findlabels(co.co_code))
        if a != b:
            ctx.violation("%s:findlabels" % htag, "%s vs dis %s (%s)" % (a[:6], b[:6], where))
    except Exception as e:
        ctx.violation("%s:findlabels:raises:%s" % (htag, type(e).__name__), "%r (%s)" % (e, where))
    try:
        a, b = set(tuple(x) for x in X.findlinestarts(co)), set(tuple(x) for x in dis.findlinestarts(co))
        if a != b:
            ctx.violation("%s:findlinestarts" % htag, "%s vs dis %s (%s)" % (sorted(a ^ b, key=str)[:4], "", where))
    except Exception as e:
        ctx.violation("%s:findlinestarts:raises:%s" % (htag, type(e).__name__), "%r (%s)" % (e, where))


def run_case(case, ctx):
    import dis

    warnings.simplefilter("ignore")
    import xdis.std as X

    host = sys.version_info[:2]
    htag = "%d.%d" % host
    if case["kind"] == "canary":
        cat, jumps = host_ops()

        def f(a):
            return a + 1

        rs = ref_insts(dis, f, 100)
        xs = list(X.get_instructions(f, first_line=None))
        c2 = common.Ctx("canary")
        cmp_stream(c2, htag, "canary", xs, rs, cat, jumps, host)
        if c2.viol:
            ctx.violation("canary-detected", "line shift difference flagged")
        return
    if case["kind"] == "tables":
        import opcode

        for name in ("opmap", "opname", "hasconst", "hasname", "HAVE_ARGUMENT", "EXTENDED_ARG", "hasjrel", "hasjabs", "haslocal", "hascompare",
                     "hasfree", "hasarg", "hasexc", "hasjump"):
            if not hasattr(opcode, name):
                continue    # this host's dis has no such table
            ctx.count("tables")
            if not hasattr(X, name):
                ctx.violation("%s:table-missing:%s" % (htag, name), "xdis.std lacks %s" % name)
                continue
            a, b = getattr(X, name), getattr(opcode, name)
            if name == "opmap":
                a = {k: v for k, v in a.items() if v < 256}
                b = {k: v for k, v in b.items() if v < 256}
            if name == "opname":
                # dis pads unknown opcodes with '<N>'; specialised names are not part of the documented table
                a = [x for x in list(a)[:256]]
                b = [x for x in list(b)[:256]]
                bad = [(i, x, y) for i, (x, y) in enumerate(zip(a, b)) if x != y and not y.startswith("<")]
                if bad:
                    ctx.violation("%s:table:opname" % htag, "differs at %s" % (bad[:4],))
                continue
            if isinstance(b, (list, tuple, set, frozenset)):
                # category tables are membership tables (xdis keeps some as lists with repeated entries)
                a, b = sorted(set(x for x in a if x < 256)), sorted(set(x for x in b if x < 256))
            if a != b:
                ctx.violation("%s:table:%s" % (htag, name), "xdis.std.%s != opcode.%s (%s vs %s)" % (name, name, str(a)[:80], str(b)[:80]))
        return
    if case["kind"] == "traceback":
        # Bytecode.from_traceback / distb: the frame the exception was raised in, for tracebacks 1 to 4 frames deep
        ns = {"__name__": "tbk"}
        exec(compile("def lvl(n, d):\n    x = [n, d]\n    if n == 0:\n        return x[d] / 0\n    return lvl(n - 1, d) + 1\n", "<tbk>", "exec"), ns)
        for depth in (0, 1, 2, 3):
            ctx.count("tracebacks")
            try:
                ns["lvl"](depth, 0)
            except ZeroDivisionError:
                tb = sys.exc_info()[2].tb_next      # first frame of lvl
            try:
                ref = dis.Bytecode.from_traceback(tb)
                got = X.Bytecode.from_traceback(tb)
                if got.codeobj is not ref.codeobj:
                    ctx.violation("%s:from_traceback:code-object" % htag, "depth %d: xdis picks %s, dis %s" % (depth + 1, got.codeobj.co_name, ref.codeobj.co_name))
                if got.current_offset != ref.current_offset:
                    ctx.violation("%s:from_traceback:current_offset" % htag, "depth %d: current_offset %r, dis %r" % (depth + 1, got.current_offset, ref.current_offset))
                ri = [(i.offset, i.opname, i.arg) for i in ref if i.opname != "CACHE"]
                gi = [(i.offset, i.opname, i.arg) for i in got if i.opname != "CACHE"]
                if ri != gi:
                    ctx.violation("%s:from_traceback:stream" % htag, "depth %d: instruction streams differ" % (depth + 1))
                # the listing marks the current instruction with -->
                txt = got.dis()
                marked = [ln for ln in txt.splitlines() if "-->" in ln]
                if len(marked) != 1 or (" %d " % ref.current_offset) not in marked[0]:
                    ctx.violation("%s:from_traceback:marker" % htag, "depth %d: '-->' lines %r, current offset %d" % (depth + 1, marked[:2], ref.current_offset))
            except Exception as e:
                ctx.violation("%s:from_traceback:raises:%s" % (htag, type(e).__name__), "depth %d: %r" % (depth + 1, e))
        return
    if case["kind"] == "warm":
        ns = {"__name__": "warm"}
        exec(compile(WARM_SRC, "<warm>", "exec"), ns)
        p_ = ns["P"]()
        for rounds in (0, 1, 9, 70):
            for _ in range(rounds):
                ns["w_loop"](40)
                ns["w_attr"](p_, 12)
                ns["w_calls"](12)
                ns["w_compare"]([None, 1, 2, 3, 5, 9, 9, 9])
            for nm in ("w_loop", "w_attr", "w_calls", "w_compare"):
                check_object(ctx, htag, "warm-%d" % rounds, ns[nm], [None, "own"])
                check_code(ctx, htag, ns[nm].__code__, "warm-%d/%s" % (rounds, nm))
            check_object(ctx, htag, "warm-%d" % rounds, p_.inc, [None])
            ctx.count("warm_functions", 5)
        return
    if case["kind"] == "zoo":
        ns = {"__name__": "zoo"}
        exec(compile(ZOO_SRC, "<zoo>", "exec"), ns)
        g = ns["gen"](3)
        c = ns["coro"](1)
        ag = ns["agen"](1)
        objs = [("function", ns["fn"]), ("method", ns["K"]().meth), ("class", ns["K"]), ("generator", g), ("coroutine", c), ("asyncgen", ag),
                ("code", ns["fn"].__code__), ("lambda", ns["lam"]), ("source", "x = [i for i in range(3)]\nprint(x)"), ("source-expr", "a + b * 2"),
                ("unbound", ns["K"].meth), ("int", 5), ("none-str", ""), ("staticmethod-class", types.SimpleNamespace)]
        objs_dis = objs + [("staticmethod-object", ns["K"].__dict__["sm"]), ("classmethod-object", ns["K"].__dict__["cm"]), ("module", types.ModuleType("m"))]
        import io as _io
        import re as _re

        for kind, obj in objs_dis:
            # dis(): what gets printed - same number of instruction lines as the host's dis prints, or both refuse
            ctx.count("dis_outputs")
            a, b = _io.StringIO(), _io.StringIO()
            ra = rb = None
            try:
                dis.dis(obj, file=a)
            except Exception as e:
                ra = type(e).__name__
            try:
                X.dis(obj, file=b)
            except Exception as e:
                rb = type(e).__name__
            if (ra is None) != (rb is None):
                ctx.violation("%s:dis():acceptance:%s" % (htag, kind), "dis.dis %s, xdis.std.dis %s" % (ra or "prints", rb or "prints"))
                continue
            if ra is None:
                inst = _re.compile(r"^\s*(?:\d+:?\s+)?(?:-->)?\s*(?:>>)?\s*(?:L\d+:)?\s*\d*\s+[A-Z][A-Z_0-9+]+(\s|$)")
                na = len([l for l in a.getvalue().splitlines() if inst.match(l) and "CACHE" not in l])
                nb = len([l for l in b.getvalue().splitlines() if inst.match(l) and "CACHE" not in l])
                if (na == 0) != (nb == 0):
                    ctx.violation("%s:dis():empty:%s" % (htag, kind), "dis.dis prints %d instruction lines, xdis.std.dis %d" % (na, nb))
        for kind, obj in objs:
            check_object(ctx, htag, kind, obj, FIRST_LINES)
        c.close()
        for co in walk(ns["fn"].__code__) + walk(ns["K"].meth.__code__):
            check_code(ctx, htag, co, "zoo/" + co.co_name)
        return
    if case["kind"] == "prog":
        try:
            top = compile(case["src"], "<%s>" % case["id"], "exec")
        except (SyntaxError, ValueError):
            return
        check_object(ctx, htag, "source", case["src"], [None, 100])
        for co in walk(top):
            check_object(ctx, htag, "code", co, [None, "own"] if co is not top else [None, 100, 0])
            check_code(ctx, htag, co, case["id"] + "/" + co.co_name)
        return
    # make_std_api(v) on version-v code
    ver = tuple(case["ver"])
    vtag = "api-%d.%d" % ver
    from xdis.std import make_std_api
    from vlib.xcanon import walk_xcodes

    api = make_std_api(ver)
    try:
        co = xinst.load_payload(case["pyc"][2 * (16 if ver >= (3, 7) else 12 if ver >= (3, 3) else 8):], ver)
    except Exception as e:
        ctx.violation("%s:load-raises:%s" % (vtag, type(e).__name__), str(e)[:120])
        return
    for xc, rc in zip(walk_xcodes(co), case["codes"]):
        ctx.count("api_code_objects")
        where = "%s/%s" % (case["id"], rc["name"])
        try:
            xs = [i for i in api.get_instructions(xc) if i.opname != "CACHE"]
        except Exception as e:
            ctx.violation("%s:get_instructions:raises:%s" % (vtag, type(e).__name__), "%r (%s)" % (e, where))
            continue
        rs = rc["insts"]
        if len(xs) != len(rs):
            ctx.violation("%s:get_instructions:count" % vtag, "%d instructions, interpreter %d (%s)" % (len(xs), len(rs), where))
            continue
        for i, r in zip(xs, rs):
            if (i.offset, i.opcode, i.opname, i.arg) != (r[0], r[1], r[2], r[3]) or i.starts_line != r[6]:
                ctx.violation("%s:get_instructions:field" % vtag, "%s@%d arg %r line %r vs interpreter %s (%s)" % (i.opname, i.offset, i.arg, i.starts_line, r[:4] + [r[6]], where))
                break
        try:
            bs = [i for i in api.Bytecode(xc) if i.opname != "CACHE"]
            if [(i.offset, i.opcode, i.arg) for i in bs] != [(r[0], r[1], r[3]) for r in rs]:
                ctx.violation("%s:Bytecode:stream" % vtag, "Bytecode() stream differs from interpreter's (%s)" % where)
        except Exception as e:
            ctx.violation("%s:Bytecode:raises:%s" % (vtag, type(e).__name__), "%r (%s)" % (e, where))
        try:
            if sorted(api.findlabels(xc.co_code)) != sorted(rc["labels"]) and not (ver < (3, 0) and any(r[2] == "EXTENDED_ARG" for r in rs)):
                ctx.violation("%s:findlabels" % vtag, "%s vs %s (%s)" % (sorted(api.findlabels(xc.co_code))[:6], sorted(rc["labels"])[:6], where))
            if [tuple(x) for x in api.findlinestarts(xc)] != [tuple(x) for x in rc["linestarts"]]:
                ctx.violation("%s:findlinestarts" % vtag, "%s vs %s (%s)" % (list(api.findlinestarts(xc))[:4], rc["linestarts"][:4], where))
        except Exception as e:
            ctx.violation("%s:find*:raises:%s" % (vtag, type(e).__name__), "%r (%s)" % (e, where))
