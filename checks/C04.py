# C04 - jump targets, labels and is_jump_target agree with CPython and with each other.
from gen.canon import unhx
from vlib import common, xinst
from vlib.xcanon import walk_xcodes

ID = "C04"
LEVEL = "exploration"
TECHNIQUE = ("bounded exhaustive enumeration of jump instructions (every jump opcode x boundary operands x filler counts x "
             "EXTENDED_ARG forms, all ordered pairs of jumps) and all compiled G-programs; targets, label lists and "
             "is_jump_target from the real xdis code compared with the producing CPython's dis, plus internal-consistency "
             "invariants between xdis's two label finders and its operand decoder on every element")
TEXT = ("Every jump opcode of each of the nine reference tables is placed after 0/1/3/130/200 filler instructions with "
        "operands 0..65536 (so targets cross 255 and backward jumps have room), alone and in ordered pairs, and in every "
        "compiled program with loops, generators, async and try/with. Target offsets, findlabels() sets and is_jump_target "
        "flags must equal CPython's; opc.findlabels, cross_dis.findlabels and Instruction.argval must agree with each other.")
NOTE = ("Trusted: dis.findlabels / get_instructions of 3.6..3.13. For 2.7 EXTENDED_ARG-prefixed jumps the reference is "
        "the operand dis.disassemble prints (its findlabels ignores the prefix, DESIGN 3.3). Versions without interpreter: "
        "the internal-consistency invariants hold on the M-dis tables of C02 only through the 2.7/3.6 prototypes.")
RULE = ("case = one synthetic stream containing 1-2 jumps (dataset rawcode kinds jump/stream with >=1 jump accepted by the "
        "reference dis) or one compiled program; distinct = distinct (version, bytes); non-trivial = contains a jump")
ASSUMPTIONS = ["reference = dis of the producing interpreter", "targets that fall outside the stream are compared as numbers only"]


def bounds(tier):
    return {"operands": [0, 1, 2, 3, 127, 128, 255, 256, 300, 65535, 65536], "fillers": [0, 1, 3, 130, 200],
            "pairs_operands": [0, 2, 300], "program_statements_k": 1 if tier == "quick" else 2}


# every host reads the compiled programs and the corpus (native path where the file is the host's own version);
# the synthetic spaces run on the primary host
SECONDARY_KINDS = ("prog", "corpus")


def hosts(tier):
    return common.HOSTS


def workers_for_host(tier, host):
    return 6 if host == common.PRIMARY else 2


def prepare(tier):
    k = 1 if tier == "quick" else 2
    return {"raw": common.datasets("rawcode", common.REFS), "progs": common.datasets("progs", common.REFS, k)}


def cases(plan, tier, shard, nshards, host):
    for c in corpus_cases(tier, shard, nshards):
        yield c
    for v in common.REFS:
        P = common.read_meta(plan["raw"][v])["P"]
        for idx, rec in common.read_dataset(plan["raw"][v], shard, nshards):
            if idx < 0 or rec["kind"] == "resolve" or not rec.get("accepted") or not rec.get("targets"):
                continue
            if any(a[1] == P["ext"] and b[2] is None for a, b in zip(rec["ops"], rec["ops"][1:])):
                continue  # ill-formed: EXTENDED_ARG before an opcode without operand (DESIGN 3.3, see C02)
            yield {"kind": "raw", "ver": rec["ver"], "code": rec["code"], "tag": rec["tag"], "targets": rec["targets"],
                   "labels": rec["labels"], "flags": rec.get("jump_target_flags"), "P": P}
        for idx, rec in common.read_dataset(plan["progs"][v], shard, nshards):
            if idx < 0:
                continue
            jumps = set(P["jrel"]) | set(P["jabs"])
            yield {"kind": "prog", "ver": rec["ver"], "id": rec["id"], "pyc": rec["pyc"], "P": P,
                   "codes": [{"name": c["name"], "len": c["len"], "labels": c["labels"],
                              "targets": [[i[0], i[4][1]] for i in c["insts"] if i[1] in jumps],
                              "flags": [i[0] for i in c["insts"] if i[5]],
                              "starts": [i[0] for i in c["insts"]],
                              "exc": [e[2] for e in c.get("exc", [])]} for c in rec["codes"]]}


def corpus_cases(tier, shard, nshards):
    import glob
    import os

    m = 0
    for f in sorted(glob.glob(os.path.join(common.REPO, "test", "bytecode_*", "*.pyc"))):
        if "dropbox" in f or os.path.getsize(f) > (12000 if tier == "quick" else 200000):
            continue
        m += 1
        if m % nshards == shard:
            yield {"kind": "corpus", "path": os.path.relpath(f, common.REPO)}


def run_corpus(case, ctx):
    """every version of the historical corpus: the internal-consistency invariants of the property (no interpreter needed)"""
    import os
    import re

    import xdis.cross_dis
    from xdis.disasm import get_opcode
    from xdis.load import load_module

    try:
        res = load_module(os.path.join(common.REPO, case["path"]))
    except Exception:
        return
    ver, co, pypy = tuple(res[0][:2]), res[3], res[4]
    fam = re.search(r"bytecode_([^/]+)/", case["path"]).group(1)
    if not hasattr(co, "co_code"):
        return
    opc = get_opcode(ver, pypy)
    jumps = set(opc.JREL_OPS) | set(opc.JABS_OPS)
    for c in walk_xcodes(co):
        ctx.count("corpus_code_objects")
        where = "%s/%s" % (case["path"], c.co_name)
        try:
            xins = xinst.xinsts(c, opc)
            l1 = list(opc.findlabels(c.co_code, opc))
            l2 = list(xdis.cross_dis.findlabels(c.co_code, opc))
        except Exception as e:
            ctx.violation("corpus-%s:raises:%s" % (fam, type(e).__name__), "%r (%s)" % (e, where))
            continue
        targets = set(i.argval for i in xins if i.opcode in jumps and i.arg is not None)
        handlers = set()
        if ver >= (3, 11) and getattr(c, "co_exceptiontable", None):
            from xdis.bytecode import parse_exception_table

            handlers = set(e.target for e in parse_exception_table(c.co_exceptiontable))
        if set(l1) != targets or set(l2) != targets:
            ctx.violation("corpus-%s:labels-vs-own-argval" % fam, "opc.findlabels %s, cross_dis.findlabels %s, jump argvals %s (%s)"
                          % (sorted(l1)[:6], sorted(l2)[:6], sorted(targets)[:6], where))
        flagged = set(i.offset for i in xins if i.is_jump_target and i.opname != "CACHE")
        starts = set(i.offset for i in xins) | {len(c.co_code)}
        if flagged != ((targets | handlers) & starts):
            ctx.violation("corpus-%s:is_jump_target" % fam, "flagged %s, labels+handlers %s (%s)" % (sorted(flagged)[:6], sorted((targets | handlers) & starts)[:6], where))
        bad = [t for t in targets if t not in starts]
        if bad:
            ctx.violation("corpus-%s:target-not-instruction-start" % fam, "targets %s are not instruction starts (%s)" % (bad[:4], where))


def case_key(c):
    if c["kind"] == "corpus":
        return "corpus:" + c["path"]
    return "%s:%s:%s" % (c["kind"], c["ver"], c.get("code") or c.get("id"))


def describe(c):
    if c["kind"] == "corpus":
        return c
    if c["kind"] == "raw":
        return {"kind": "raw", "version": c["ver"], "tag": c["tag"], "co_code_len": len(c["code"]) // 2,
                "reference_targets": c["targets"], "reference_labels": c["labels"]}
    return {"kind": "prog", "version": c["ver"], "program": c["id"]}


def canary_cases(plan, tier, host):
    for idx, rec in common.read_dataset(plan["raw"]["3.8"]):
        if idx >= 0 and rec["kind"] == "jump" and rec.get("targets"):
            t = [[o, x + 2] for o, x in rec["targets"]]
            yield {"kind": "raw", "ver": rec["ver"], "code": rec["code"], "tag": rec["tag"], "targets": t,
                   "labels": [x + 2 for x in rec["labels"]], "flags": rec.get("jump_target_flags"),
                   "P": common.read_meta(plan["raw"]["3.8"])["P"]}
            break


def _check_code(ctx, vtag, ver, where, code_bytes, xins, ref, opc, P, compiled):
    import xdis.cross_dis

    jumps = set(P["jrel"]) | set(P["jabs"])
    by_off = {i.offset: i for i in xins}
    # 1. targets of jump instructions
    xt = {}
    for i in xins:
        if i.opcode in jumps and i.arg is not None:
            xt[i.offset] = i.argval
    for off, tgt in ref["targets"]:
        ctx.count("jumps_compared")
        i = by_off.get(off)
        if i is None:
            ctx.violation("%s:target:missing" % vtag, "no instruction at %d (%s)" % (off, where))
            continue
        if i.argval != tgt:
            ctx.violation("%s:target:%s" % (vtag, i.opname), "%s at %d (operand %r): xdis target %r, CPython %r (%s)"
                          % (i.opname, off, i.arg, i.argval, tgt, where))
    want_labels = set(ref["labels"])
    if ver < (3, 0) and any(i.opcode == P["ext"] for i in xins):
        want_labels = set(t for _, t in ref["targets"])  # 2.7 findlabels ignores EXTENDED_ARG (DESIGN 3.3)
    # 2. both label finders
    for fname, fn in (("opc.findlabels", lambda: opc.findlabels(code_bytes, opc)),
                      ("cross_dis.findlabels", lambda: xdis.cross_dis.findlabels(code_bytes, opc))):
        try:
            got = list(fn())
        except Exception as e:
            ctx.violation("%s:%s:raises:%s" % (vtag, fname, type(e).__name__), "%r (%s)" % (e, where))
            continue
        if set(got) != want_labels:
            ops = sorted(set(by_off[o].opname for o, t in ref["targets"] if o in by_off and t not in got)) or ["extra-label"]
            ctx.violation("%s:%s:%s" % (vtag, fname, ops[0]), "labels %s, CPython %s (%s)"
                          % (sorted(got)[:8], sorted(want_labels)[:8], where))
        if len(got) != len(set(got)):
            ctx.violation("%s:%s:duplicates" % (vtag, fname), "label list has duplicates (%s)" % where)
        # invariant: labels == targets of the jump instructions as xdis itself decodes them
        if set(got) != set(xt.values()):
            ctx.violation("%s:%s:vs-own-argval" % (vtag, fname), "labels %s but own jump argvals %s (%s)"
                          % (sorted(got)[:8], sorted(set(xt.values()))[:8], where))
    # 2b. the sibling reports of the same targets: get_jump_targets and the edges of get_jump_target_maps
    if compiled and hasattr(opc, "get_jump_targets"):
        ctx.count("jump_map_routes")
        try:
            jt = set(opc.get_jump_targets(code_bytes, opc))
            if jt != want_labels:
                ctx.violation("%s:get_jump_targets" % vtag, "get_jump_targets %s, CPython %s (%s)" % (sorted(jt)[:8], sorted(want_labels)[:8], where))
            jm = opc.get_jump_target_maps(code_bytes, opc)
            # documented: key = offset, value = offsets of the instructions that can run right before it: the jumps that
            # go there and the preceding instruction (unless that one never falls through)
            edges = set((off, tgt) for off, tgt in ref["targets"])
            for off, tgt in sorted(edges):
                if off not in jm.get(tgt, []):
                    ctx.violation("%s:get_jump_target_maps:jump-edge-missing" % vtag, "jump at %d goes to %d, map[%d] = %r (%s)" % (off, tgt, tgt, jm.get(tgt), where))
                    break
            starts_sorted = sorted(by_off)
            prev_of = dict(zip(starts_sorted[1:], starts_sorted))
            for k, srcs in sorted(jm.items()):
                for src in srcs:
                    if (src, k) in edges or prev_of.get(k) == src:
                        continue
                    ctx.violation("%s:get_jump_target_maps:edge-not-in-code" % vtag, "map[%d] lists %d, which neither jumps there nor precedes it (%s)" % (k, src, where))
                    break
                else:
                    continue
                break
        except Exception as e:
            ctx.violation("%s:get_jump_target_maps:raises:%s" % (vtag, type(e).__name__), "%r (%s)" % (e, where))
    # 3. is_jump_target
    handlers = set(ref.get("exc") or [])
    if ref.get("flags") is not None:
        got_flags = set(i.offset for i in xins if i.is_jump_target and i.opname != "CACHE")
        # dis.get_instructions() omits exception-handler targets, dis.Bytecode() adds them; the property follows Bytecode
        want_flags = set(ref["flags"]) | handlers
        if got_flags != want_flags:
            ctx.violation("%s:is_jump_target" % vtag, "flagged %s, CPython %s (%s)" % (sorted(got_flags)[:8], sorted(want_flags)[:8], where))
    for i in xins:
        if bool(i.is_jump_target) != (i.offset in want_labels or i.offset in handlers) and ref.get("flags") is None:
            ctx.violation("%s:is_jump_target-vs-labels" % vtag, "offset %d flagged %r (%s)" % (i.offset, i.is_jump_target, where))
            break
    # 4. compiler-produced code: every target is an instruction start or len(co_code)
    if compiled:
        starts = set(ref["starts"]) | {ref["len"]}
        for t in xt.values():
            if t not in starts:
                ctx.violation("%s:target-not-instruction-start" % vtag, "target %r is not an instruction start (%s)" % (t, where))
                break


def run_case(case, ctx):
    if case["kind"] == "corpus":
        return run_corpus(case, ctx)
    ver = tuple(case["ver"])
    vtag = "%d.%d" % ver
    opc = xinst.opc_for(ver)
    P = case["P"]
    ctx.count("cases_%s_%s" % (case["kind"], vtag))
    if case["kind"] == "raw":
        code = unhx(case["code"])
        try:
            xins = xinst.xinsts(xinst.portable_with_code(ver, code), opc)
        except Exception as e:
            ctx.violation("%s:raises:%s" % (vtag, type(e).__name__), "%r on %s" % (e, case["tag"]))
            return
        _check_code(ctx, vtag, ver, case["tag"], code, xins, case, opc, P, False)
        return
    try:
        _, co, _ = xinst.load_pyc(case["pyc"])
    except Exception as e:
        ctx.violation("%s:load-raises:%s" % (vtag, type(e).__name__), str(e)[:200])
        return
    for xc, rc in zip(walk_xcodes(co), case["codes"]):
        try:
            xins = xinst.xinsts(xc, opc)
        except Exception as e:
            ctx.violation("%s:prog-raises:%s" % (vtag, type(e).__name__), "%r in %s" % (e, case["id"]))
            continue
        _check_code(ctx, vtag, ver, case["id"] + "/" + rc["name"], xc.co_code, xins, rc, opc, P, True)
    # the same flags through Bytecode.get_instructions(x) of an object built for *another* code object (a driver that keeps
    # one Bytecode around): the argument's own labels count, not those of the object the instance was made for
    xcs = walk_xcodes(co)
    if len(xcs) > 1:
        from xdis.bytecode import Bytecode

        try:
            keeper = Bytecode(xcs[0], opc)
            for xc, rc in list(zip(xcs, case["codes"]))[1:]:
                if rc.get("flags") is None or len(xc.co_code) > 600:
                    continue
                ctx.count("get_instructions_on_other_object")
                got = set(i.offset for i in keeper.get_instructions(xc) if i.is_jump_target and i.opname != "CACHE")
                want = set(rc["flags"])
                # get_instructions() takes no exception table: handler targets are Bytecode's addition (as in dis)
                if got - set(rc.get("exc") or []) != want - set(rc.get("exc") or []):
                    ctx.violation("%s:is_jump_target:get_instructions-of-other-object" % vtag, "Bytecode(%s).get_instructions(%s) flags %s, CPython %s (%s)"
                                  % (xcs[0].co_name, xc.co_name, sorted(got)[:8], sorted(want)[:8], case["id"]))
        except Exception as e:
            ctx.violation("%s:get_instructions-of-other-object:raises:%s" % (vtag, type(e).__name__), "%r (%s)" % (e, case["id"]))
