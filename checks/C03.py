# C03 - operands resolve to the same constant, name or variable CPython resolves.
from gen.canon import unhx
from vlib import common, xinst
from vlib.xargval import xargval
from vlib.xcanon import walk_xcodes

ID = "C03"
LEVEL = "exploration"
TECHNIQUE = ("bounded exhaustive enumeration: every table-indexed opcode of each reference version x every operand its "
             "tables admit (all flag-bit combinations of the encoded operands) on a closure-bearing code object, plus "
             "all compiled G-programs; argval compared with the producing CPython's dis")
TEXT = ("For each of the nine reference versions every opcode in hasconst/hasname/haslocal/hasfree/hascompare (and the "
        "3.13 paired fast ops) is decoded with every operand value 0..259 that CPython's dis accepts on a fixed code "
        "object whose parameter is also a cell; plus every instruction of every compiled program. argval and operand "
        "category must equal what that CPython's dis resolves.")
NOTE = ("Trusted: dis.get_instructions().argval of 3.6..3.13; for 2.7 the same lookups through its dis.has* lists. "
        "cmp_op spelling compared modulo '-'/' ' (DESIGN 3.2). Versions without interpreter: not covered (no reference).")
RULE = ("case = one 'resolve' stream (one opcode, all accepted operands) or one compiled program, per reference version; "
        "distinct = distinct (version, opcode) / (version, program); each checks every table-indexed instruction")
ASSUMPTIONS = ["reference = argval of dis.get_instructions in the producing interpreter",
               "operands outside the tables (rejected by CPython's dis) are outside the property's domain"]
CATNAME = {"hasconst": "const", "hasname": "name", "haslocal": "local", "hasfree": "free", "hascompare": "compare"}


def bounds(tier):
    return {"operands": "0..259 filtered by reference acceptance", "program_statements_k": 1 if tier == "quick" else 2}


# every host reads the compiled programs and the corpus (native path where the file is the host's own version);
# the synthetic spaces run on the primary host
SECONDARY_KINDS = ("prog", "corpus")


def hosts(tier):
    return common.HOSTS


def workers_for_host(tier, host):
    return 6 if host == common.PRIMARY else 2


def prepare(tier):
    k = 1 if tier == "quick" else 2
    return {"raw": common.datasets("rawcode", common.REFS), "progs": common.datasets("progs", common.REFS, k)}


def cases(plan, tier, shard, nshards, host):
    import glob
    import os

    # versions without an interpreter (corpus of 1.x, 2.0-2.6, 3.0-3.5, PyPy): reference = M-resolve, a plain table
    # lookup by category (the same rule CPython's dis applies in every version), with the categories of the table
    # xdis picks; M-resolve itself is replayed against all nine real interpreters on every program case below
    m = 0
    for f in sorted(glob.glob(os.path.join(common.REPO, "test", "bytecode_*", "*.pyc"))):
        if "dropbox" in f or os.path.getsize(f) > (12000 if tier == "quick" else 200000):
            continue
        m += 1
        if m % nshards == shard:
            yield {"kind": "corpus", "path": os.path.relpath(f, common.REPO)}
    for v in common.REFS:
        P = common.read_meta(plan["raw"][v])["P"]
        cat = {}
        for c in CATNAME:
            for op in P[c]:
                cat.setdefault(op, c)
        n = 0
        for idx, rec in common.read_dataset(plan["raw"][v]):
            if idx < 0 or rec["kind"] != "resolve":
                continue
            if n % nshards == shard:
                yield {"kind": "resolve", "ver": rec["ver"], "opname": rec["opname"], "cat": rec["cat"], "payload": rec["payload"],
                       "insts": rec["insts"], "P": P}
            n += 1
        for idx, rec in common.read_dataset(plan["progs"][v], shard, nshards):
            if idx < 0:
                continue
            yield {"kind": "prog", "ver": rec["ver"], "id": rec["id"], "pyc": rec["pyc"], "P": P,
                   "codes": [{"name": c["name"], "insts": [i for i in c["insts"] if i[1] in cat]} for c in rec["codes"]]}


def case_key(c):
    if c["kind"] == "corpus":
        return "corpus:" + c["path"]
    return "%s:%s:%s" % (c["kind"], c["ver"], c.get("opname") or c.get("id"))


def describe(c):
    if c["kind"] == "corpus":
        return c
    if c["kind"] == "resolve":
        return {"kind": "resolve", "version": c["ver"], "opcode": c["opname"], "category": c["cat"],
                "first_reference_instructions": c["insts"][:4]}
    return {"kind": "prog", "version": c["ver"], "program": c["id"]}


def canary_cases(plan, tier, host):
    import copy

    for idx, rec in common.read_dataset(plan["raw"]["3.11"]):
        if idx >= 0 and rec["kind"] == "resolve" and rec["opname"] == "LOAD_FAST":
            ins = copy.deepcopy(rec["insts"])
            ins[1][4] = ["s", "not_the_name"]
            yield {"kind": "resolve", "ver": rec["ver"], "opname": rec["opname"], "cat": rec["cat"], "payload": rec["payload"],
                   "insts": ins, "P": common.read_meta(plan["raw"]["3.11"])["P"]}


def _compare(ctx, vtag, ver, where, xins, refs, cat_of):
    by_off = {i.offset: i for i in xins}
    for r in refs:
        off, op, name, arg, av = r[0], r[1], r[2], r[3], r[4]
        c = cat_of.get(op)
        if c is None or arg is None:
            continue
        if av is not None and av[0] == "r":
            ctx.count("reference_unresolved_skipped")  # dis shows UNKNOWN (3.11 KW_NAMES): no reference
            continue
        ctx.count("instructions_compared")
        i = by_off.get(off)
        if i is None or i.opcode != op:
            ctx.violation("%s:%s:no-instruction" % (vtag, name), "no instruction %s at %d (%s)" % (name, off, where))
            continue
        got = xargval(i.argval, ver, is_compare=(c == "hascompare"))
        want = av
        if c == "hascompare" and want and want[0] == "s":
            want = ["s", want[1].replace("-", " ")]
        if got != want:
            ctx.violation("%s:%s:argval" % (vtag, name), "%s operand %r resolves to %s, CPython %s (%s)" % (name, arg, str(got)[:120], str(want)[:120], where))
        if i.optype != CATNAME[c]:
            # nargs/vargs/jrel.. must never claim a table-indexed opcode; an op in two CPython lists keeps the first
            ctx.violation("%s:%s:optype" % (vtag, name), "optype %r, CPython category %s" % (i.optype, CATNAME[c]))
        if not isinstance(i.argrepr, str) or (i.argrepr == "" and want != ["s", ""]):
            ctx.violation("%s:%s:argrepr-empty" % (vtag, name), "empty argrepr for %s %r" % (name, arg))


def m_resolve(op, arg, co, P, ver):
    """M-resolve: what dis resolves a table-indexed operand to (pre-3.11 rules); None = not table-indexed"""
    if arg is None:
        return None
    if op in P["hasconst"]:
        return ("const", co.co_consts[arg])
    if op in P["hasname"]:
        return ("name", co.co_names[arg])
    if op in P["haslocal"]:
        return ("local", co.co_varnames[arg])
    if op in P["hasfree"]:
        free = tuple(getattr(co, "co_cellvars", ())) + tuple(getattr(co, "co_freevars", ()))
        return ("free", free[arg])
    if op in P["hascompare"]:
        return ("compare", P["cmp_op"][arg])
    return None


def run_corpus(case, ctx):
    import os
    import re

    from xdis.disasm import get_opcode
    from xdis.load import load_module

    try:
        res = load_module(os.path.join(common.REPO, case["path"]))
    except Exception:
        return
    ver, co, pypy = tuple(res[0][:2]), res[3], res[4]
    if not hasattr(co, "co_code") or ver >= (3, 11) or ver < (1, 3):
        return
    fam = re.search(r"bytecode_([^/]+)/", case["path"]).group(1)
    opc = get_opcode(ver, pypy)
    P = {c: set(getattr(opc, c, ())) for c in CATNAME}
    P["cmp_op"] = opc.cmp_op
    for c in walk_xcodes(co):
        ctx.count("corpus_code_objects")
        try:
            xins = xinst.xinsts(c, opc)
        except Exception as e:
            ctx.violation("corpus-%s:raises:%s" % (fam, type(e).__name__), "%r in %s/%s" % (e, case["path"], c.co_name))
            continue
        for i in xins:
            try:
                want = m_resolve(i.opcode, i.arg, c, P, ver)
            except IndexError:
                continue  # operand outside its table (PyPy leaves some out): no reference
            if want is None:
                continue
            ctx.count("corpus_instructions_compared")
            got = i.argval
            w = want[1]
            if want[0] == "compare":
                got, w = str(got).replace("-", " "), str(w).replace("-", " ")
            if got is not w and got != w:
                ctx.violation("corpus-%s:%s:argval" % (fam, i.opname), "%s operand %r resolves to %r, table lookup gives %r (%s/%s)"
                              % (i.opname, i.arg, got, w, case["path"], c.co_name))
                break


def run_case(case, ctx):
    if case["kind"] == "corpus":
        return run_corpus(case, ctx)
    ver = tuple(case["ver"])
    vtag = "%d.%d" % ver
    opc = xinst.opc_for(ver)
    P = case["P"]
    cat_of = {}
    for c in CATNAME:
        for op in P[c]:
            cat_of.setdefault(op, c)
    ctx.count("cases_%s_%s" % (case["kind"], vtag))
    if case["kind"] == "resolve":
        try:
            co = xinst.load_payload(case["payload"], ver)
            xins = xinst.xinsts(co, opc)
        except Exception as e:
            ctx.violation("%s:%s:raises:%s" % (vtag, case["opname"], type(e).__name__), "decoding raised %r" % (e,))
            return
        _compare(ctx, vtag, ver, "resolve stream", xins, case["insts"], cat_of)
        return
    try:
        _, co, _ = xinst.load_pyc(case["pyc"])
    except Exception as e:
        ctx.violation("%s:load-raises:%s" % (vtag, type(e).__name__), str(e)[:200])
        return
    xs = walk_xcodes(co)
    for xc, rc in zip(xs, case["codes"]):
        try:
            xins = xinst.xinsts(xc, opc)
        except Exception as e:
            ctx.violation("%s:prog-raises:%s" % (vtag, type(e).__name__), "%r in %s" % (e, case["id"]))
            continue
        _compare(ctx, vtag, ver, case["id"] + "/" + rc["name"], xins, rc["insts"], cat_of)
        if ver < (3, 11):
            # conformance of M-resolve with the real interpreter's dis on this code object
            PM = {c: set(P[c]) for c in CATNAME}
            PM["cmp_op"] = ["<", "<=", "==", "!=", ">", ">=", "in", "not in", "is", "is not", "exception match", "BAD"]
            for r in rc["insts"]:
                if r[3] is None or r[4] is None or r[4][0] == "r":
                    continue
                try:
                    w = m_resolve(r[1], r[3], xc, PM, ver)
                except IndexError:
                    w = None
                if w is None:
                    continue
                mv = xargval(w[1], ver, is_compare=(w[0] == "compare"))
                ref = r[4] if w[0] != "compare" else ["s", r[4][1].replace("-", " ")]
                if mv != ref:
                    ctx.violation("HARNESS:M-resolve-conformance:%s" % vtag, "model %s vs dis %s for %s %r (%s)" % (mv, ref, r[2], r[3], case["id"]))
                    break
                ctx.count("model_conformance_M-resolve")
