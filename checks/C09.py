# C09 - opcode tables match the interpreter's own opcode module.
from vlib import common

ID = "C09"
LEVEL = "exploration"
EXHAUSTIVE = True
TECHNIQUE = ("complete enumeration of every opcode table reachable through op_imports x all 256 opcode numbers x all "
             "category sets, compared with the opcode module of the nine installed CPythons; invariants on every table")
TEXT = ("The space (about 45 tables x 256 opcode numbers x 12 attributes) is finite and is enumerated completely on "
        "every run. Tables of the nine versions with an installed interpreter are compared entry by entry with that "
        "interpreter's opcode module; every table (incl. 1.x, PyPy, Graal) is checked against the structural invariants.")
NOTE = ("Trusted: the opcode modules of the installed CPython 2.7.18, 3.6.15 .. 3.13.0. Tables of versions without an "
        "installed interpreter get the invariants only (no entry-by-entry reference).")
RULE = ("one case per (table name in xdis.op_imports.op_imports) plus one per reference interpreter reached through "
        "get_opcode_module; each case checks all 256 opcode numbers and all category sets; distinct = distinct table "
        "module x reference pairs")
ASSUMPTIONS = ["opcode module of each installed interpreter is the ground truth for that major.minor",
               "versions not in {2.7,3.6..3.13}: invariants plus M-extarg (EXTENDED_ARG number / HAVE_ARGUMENT by version, "
               "conformance-checked against the eight interpreters it overlaps with)"]

CATS = ["hasjrel", "hasjabs", "hasconst", "hasname", "haslocal", "hasfree", "hascompare"]


def m_extarg(vt):
    """M-extarg: number of EXTENDED_ARG per version (Lib/opcode.py history: introduced in 2.0 at 143, moved to 145
    in 2.7 when SET_ADD/MAP_ADD took 146/147, back at 143 in 3.0/3.1, 144 from 3.2 on when SETUP_WITH took 143, renumbered
    in 3.13).  Conformance with the nine installed interpreters is checked on every run (cross_check of the model)."""
    if vt < (2, 0):
        return None
    if vt < (2, 7):
        return 143
    if vt == (2, 7):
        return 145
    if vt < (3, 2):
        return 143
    if vt < (3, 13):
        return 144
    return None     # 3.13+: compared with the interpreter directly


def hosts(tier):
    return common.HOSTS


def prepare(tier):
    return {"ops": common.datasets("opcodes", common.REFS)}


def _refs(plan):
    out = {}
    for v, p in plan["ops"].items():
        for i, rec in common.read_dataset(p):
            if i >= 0:
                out[v] = rec
    return out


def cases(plan, tier, shard, nshards, host):
    from xdis.op_imports import op_imports

    refs = _refs(plan)
    keys = sorted(op_imports.keys(), key=str)
    n = 0
    for k in keys:
        if n % nshards == shard:
            yield {"kind": "table", "key": repr(k), "refs": refs}
        n += 1
    for v in common.REFS:
        if n % nshards == shard:
            yield {"kind": "via_get_opcode_module", "ver": v, "refs": refs}
        n += 1


def max_workers(tier):
    return 4


def case_key(case):
    return case["kind"] + ":" + (case.get("key") or case.get("ver"))


def describe(case):
    return {"kind": case["kind"], "table": case.get("key") or case.get("ver")}


def canary_cases(plan, tier, host):
    import copy

    refs = copy.deepcopy(_refs(plan))
    refs["3.9"]["hasjabs"] = refs["3.9"]["hasjabs"][1:]
    yield {"kind": "via_get_opcode_module", "ver": "3.9", "refs": refs}


def _table_for(case):
    from xdis.op_imports import get_opcode_module, op_imports

    if case["kind"] == "table":
        for k in op_imports:
            if repr(k) == case["key"]:
                return op_imports[k], case["key"]
        raise KeyError(case["key"])
    v = common.vt(case["ver"])
    return get_opcode_module(v + (0, "final")), case["ver"]


def run_case(case, ctx):
    opc, label = _table_for(case)
    name = opc.__name__.split(".")[-1]
    vt = tuple(opc.version_tuple[:2])
    ctx.count("tables")
    variant = "pypy" if "pypy" in name else ("graal" if "graal" in name else "cpython")

    def bad(what, msg):
        ctx.violation("%s:%s" % (name, what), "%s (table %s reached as %s)" % (msg, name, label))

    # ---- invariants on every table
    opmap, opname = opc.opmap, opc.opname
    defined = {n: o for n, o in opmap.items() if o < 256}
    for n, o in defined.items():
        ctx.count("entries")
        if opname[o] != n and not (opname[o].replace("+", "_") == n.replace("+", "_")):
            bad("bijection:%s" % n, "opmap[%s]=%d but opname[%d]=%s" % (n, o, o, opname[o]))
    rev = {}
    for n, o in defined.items():
        rev.setdefault(o, []).append(n)
    for o, ns in rev.items():
        if len(set(x.replace("+", "_") for x in ns)) > 1:
            bad("bijection:dup%d" % o, "opcode %d has several names %s" % (o, ns))
    for o in range(256):
        if not opname[o].startswith("<") and opname[o] not in opmap and opname[o].replace("+", "_") not in opmap:
            bad("bijection:opname%d" % o, "opname[%d]=%s not in opmap" % (o, opname[o]))
    ref = case["refs"].get("%d.%d" % vt) if variant == "cpython" else None
    for cat in CATS:
        if not hasattr(opc, cat):
            continue
        for o in getattr(opc, cat):
            if o >= 256:
                continue
            is_def = o in rev
            takes = o >= opc.HAVE_ARGUMENT
            if not (is_def and takes):
                same_gap = ref is not None and o in ref.get(cat, []) and (
                    (not is_def and ref["opname"][o].startswith("<")) or (not takes and o < ref["HAVE_ARGUMENT"]))
                # 3.12+: HAVE_ARGUMENT no longer separates operand-taking opcodes in CPython itself
                if not same_gap:
                    bad("categorised:%s:%d" % (cat, o), "opcode %d in %s but defined=%s takes_operand=%s" % (o, cat, is_def, takes))
    # M-facts (CPython's Lib/dis.py / opcode.py history, for tables without an interpreter): FOR_LOOP (1.0-2.2) carries the number of
    # bytes to skip when the sequence is exhausted - a relative jump (jrel_op in every opcode.py that has it)
    if "FOR_LOOP" in opmap and opmap["FOR_LOOP"] not in set(getattr(opc, "hasjrel", ())):
        bad("FOR_LOOP-not-jrel", "FOR_LOOP (%d) is not in hasjrel" % opmap["FOR_LOOP"])
    both = set(getattr(opc, "hasjrel", ())) & set(getattr(opc, "hasjabs", ()))
    if both:
        bad("jrel-and-jabs", "opcodes %s are both relative and absolute jumps" % sorted(both))
    if vt >= (2, 0) or hasattr(opc, "EXTENDED_ARG"):
        if not hasattr(opc, "EXTENDED_ARG") or opmap.get("EXTENDED_ARG") != opc.EXTENDED_ARG:
            bad("EXTENDED_ARG", "EXTENDED_ARG attribute %r vs opmap %r" % (getattr(opc, "EXTENDED_ARG", None), opmap.get("EXTENDED_ARG")))
        want = 16 if vt < (3, 6) else 8
        if vt >= (2, 0):
            num = m_extarg(vt)
            ctx.count("extarg_number_checked")
            if num is not None and getattr(opc, "EXTENDED_ARG", None) != num:
                bad("EXTENDED_ARG-number", "EXTENDED_ARG is %r, the %d.%d interpreter uses %d" % (getattr(opc, "EXTENDED_ARG", None), vt[0], vt[1], num))
            if vt < (3, 13) and opc.HAVE_ARGUMENT != 90:
                bad("HAVE_ARGUMENT-number", "HAVE_ARGUMENT is %r, every interpreter before 3.13 uses 90" % (opc.HAVE_ARGUMENT,))
        if getattr(opc, "EXTENDED_ARG_SHIFT", None) != want:
            bad("EXTENDED_ARG_SHIFT", "shift %r, expected %d" % (getattr(opc, "EXTENDED_ARG_SHIFT", None), want))
    # sets and lists agree inside the table
    for cat, S in (("hasjrel", "JREL_OPS"), ("hasjabs", "JABS_OPS"), ("hasconst", "CONST_OPS"), ("hasname", "NAME_OPS"),
                   ("haslocal", "LOCAL_OPS"), ("hasfree", "FREE_OPS"), ("hascompare", "COMPARE_OPS")):
        if hasattr(opc, cat) and hasattr(opc, S) and set(getattr(opc, cat)) != set(getattr(opc, S)):
            bad("set-vs-list:%s" % cat, "%s and %s differ" % (cat, S))
    # ---- entry by entry against the interpreter
    if ref is None:
        ctx.count("tables_invariants_only")
        return
    ctx.count("tables_with_reference")
    # documented tolerance (DESIGN 3.2): xdis spells the 2.x names SLICE+0.. as SLICE_0.. in opmap keys
    # (they must be usable as attribute names); opname[] keeps CPython's spelling and is compared exactly.
    rmap = {n.replace("+", "_"): o for n, o in ref["opmap"].items()}
    for n, o in rmap.items():
        if o >= 256:
            if opmap.get(n) != o and n in opmap:
                bad("opmap:%s" % n, "pseudo-op %s is %r, CPython %d" % (n, opmap.get(n), o))
            continue
        if opmap.get(n) != o:
            bad("opmap:%s" % n, "opmap[%s] is %r, CPython says %d" % (n, opmap.get(n), o))
    for n, o in defined.items():
        if n not in rmap:
            bad("opmap-extra:%s" % n, "xdis defines %s=%d which CPython %s does not" % (n, o, ref["ver"]))
    for o in range(256):
        r = ref["opname"][o]
        if not r.startswith("<") and opname[o] != r:
            bad("opname:%d" % o, "opname[%d] is %r, CPython says %r" % (o, opname[o], r))
        if r.startswith("<") and o in rev:
            bad("opname-extra:%d" % o, "opname[%d] is %r, CPython has no such opcode" % (o, opname[o]))
    if opc.HAVE_ARGUMENT != ref["HAVE_ARGUMENT"]:
        bad("HAVE_ARGUMENT", "HAVE_ARGUMENT %r vs %r" % (opc.HAVE_ARGUMENT, ref["HAVE_ARGUMENT"]))
    if m_extarg(vt) is not None:
        ctx.count("m_extarg_conformance")
        if m_extarg(vt) != ref["EXTENDED_ARG"] or ref["HAVE_ARGUMENT"] != 90:
            ctx.violation("model:m_extarg:%d.%d" % vt, "M-extarg says %r, CPython %s has EXTENDED_ARG=%r HAVE_ARGUMENT=%r"
                          % (m_extarg(vt), ref["ver"], ref["EXTENDED_ARG"], ref["HAVE_ARGUMENT"]))
    if opc.EXTENDED_ARG != ref["EXTENDED_ARG"]:
        bad("EXTENDED_ARG-value", "EXTENDED_ARG %r vs %r" % (opc.EXTENDED_ARG, ref["EXTENDED_ARG"]))
    for cat in CATS:
        mine = set(o for o in getattr(opc, cat, ()) if o < 256)
        theirs = set(o for o in ref.get(cat, []) if o < 256)
        for o in sorted(mine ^ theirs):
            bad("%s:%d" % (cat, o), "opcode %d (%s) %s %s in xdis but %s in CPython %s"
                % (o, ref["opname"][o], "in" if o in mine else "not in", cat, "in" if o in theirs else "not in", ref["ver"]))
