# C13 - a bytecode file read and written back is the same program for its Python.
import io
import os
import struct
import subprocess
import sys

from gen import mdis as M
from gen.canon import hx, unhx
from vlib import common
from vlib.xcanon import tree_diff, xcanon

ID = "C13"
LEVEL = "exploration"
TECHNIQUE = ("bounded exhaustive enumeration of compiled G-programs for the nine reference versions: each is loaded by xdis "
             "(portable object; native object on the matching host), written back with write_bytecode_file, and the result is "
             "(a) unmarshalled by the target CPython itself and compared field by field with the original's ground truth, "
             "(b) re-read by xdis, (c) executed by the target CPython next to the original and compared on stdout and exit status")
TEXT = ("Every program of the bounded space goes through read-then-write; a written file must be, for the interpreter named "
        "by its magic, the same code object (canonical tree equality incl. all constants) and the same behaviour; a writer "
        "that raises is accepted by the statement and is counted as 'refused' per version - a version where everything is "
        "refused is reported as vacuous coverage, not as success.")
NOTE = ("Trusted: marshal.loads and program execution of the nine target interpreters. Targets without an interpreter "
        "(2.3-2.6, 3.0-3.5) are not covered here. Programs print a digest of their globals, so behaviour is observable.")
RULE = ("case = one compiled program of one reference version x {portable, native-on-matching-host}; distinct = distinct "
        "(version, program, path); non-trivial = the writer emitted a file (refusals counted separately)")
ASSUMPTIONS = ["'raises instead of emitting a different program' makes a refusal acceptable",
               "stdout + exit status of running the .pyc under the target interpreter is the observable behaviour"]


def hosts(tier):
    return common.HOSTS


def bounds(tier):
    return {"program_statements_k": 1 if tier == "quick" else 2, "executed": "@module scope" if tier == "quick" else "all scopes"}


def prepare(tier):
    k = 1 if tier == "quick" else 2
    return {"progs": common.datasets("progs", common.REFS, k), "tier": tier}


def workers_for_host(tier, host):
    return 6 if host == common.PRIMARY else 2


def cases(plan, tier, shard, nshards, host):
    if host == common.PRIMARY:
        # every family of the historical corpus (incl. the versions without an interpreter): read, write, read again - the
        # writer refuses, or what it wrote reads back to the same content
        import glob

        n = 0
        for f in sorted(glob.glob(os.path.join(common.REPO, "test", "bytecode_*", "*.pyc"))):
            if "dropbox" in f or os.path.getsize(f) > (6000 if tier == "quick" else 100000):
                continue
            n += 1
            if n % nshards == shard:
                yield {"ver": "corpus", "path": os.path.relpath(f, common.REPO), "progs": []}
    for v in common.REFS:
        if host != common.PRIMARY and v != host:
            continue  # other hosts only contribute the native-object path for their own version
        block = []
        for idx, rec in common.read_dataset(plan["progs"][v], shard, nshards):
            if idx < 0:
                continue
            if tier == "quick" and (len(rec["pyc"]) > 8000 or not rec["id"].endswith(("@module", "@function"))):
                continue
            block.append({"id": rec["id"], "pyc": rec["pyc"], "hdrlen": rec["hdrlen"], "tree": rec["tree"]})
            if len(block) >= 40:
                yield {"ver": v, "progs": block}
                block = []
        if block:
            yield {"ver": v, "progs": block}


def case_key(c):
    if c["ver"] == "corpus":
        return "corpus:" + c["path"]
    return "%s:%s:%d" % (c["ver"], c["progs"][0]["id"], len(c["progs"]))


def describe(c):
    if c["ver"] == "corpus":
        return {"corpus_file": c["path"]}
    return {"version": c["ver"], "programs": [p["id"] for p in c["progs"]][:5], "n": len(c["progs"])}


def canary_cases(plan, tier, host):
    yield {"ver": "canary", "progs": []}


def first_kind_diff(d):
    path, exp, got = d
    import re

    leaf = re.sub(r"\[\d+\]", "[]", path)
    tail = [p for p in leaf.split(".") if p.startswith("co_")][-1:] or ["top"]
    ek = exp.split('"t": "')[1].split('"')[0] if isinstance(exp, str) and '"t": "' in exp else str(exp)[:16]
    gk = got.split('"t": "')[1].split('"')[0] if isinstance(got, str) and '"t": "' in got else str(got)[:16]
    return "%s:%s->%s" % (tail[0], ek, gk)


def run_corpus(case, ctx):
    import re
    import shutil
    import tempfile

    from xdis.load import load_module, write_bytecode_file

    path = os.path.join(common.REPO, case["path"])
    fam = re.search(r"bytecode_([^/]+)/", case["path"]).group(1)
    ctx.count("corpus_files")
    try:
        r1 = load_module(path)
    except Exception:
        ctx.count("corpus_not_loadable")      # C01/C11's business
        return
    ver = tuple(r1[0][:2])
    d = tempfile.mkdtemp(prefix="verif-c13c-")
    try:
        outp = os.path.join(d, os.path.basename(path))    # same name: PyPy 3.8 is recognised by its file name
        try:
            write_bytecode_file(outp, r1[3], r1[2], r1[1] or 0x5F000000, r1[5] if r1[5] is not None else 0)
        except Exception as e:
            ctx.count("corpus_refused")
            ctx.count("corpus_refused:%s:%s" % (fam, type(e).__name__))
            return
        ctx.count("corpus_written")
        try:
            r2 = load_module(outp)
        except Exception as e:
            ctx.violation("corpus-%s:reread-raises:%s" % (fam, type(e).__name__), "written %s cannot be read back: %r" % (case["path"], str(e)[:150]))
            return
        if tuple(r2[0][:2]) != ver or r2[2] != r1[2]:
            ctx.violation("corpus-%s:reread-version" % fam, "version/magic %s/%s became %s/%s (%s)" % (r1[0], r1[2], r2[0], r2[2], case["path"]))
        dd = tree_diff(xcanon(r1[3], ver), xcanon(r2[3], ver), nan_loose=(ver < (3, 0)))
        if dd:
            ctx.violation("corpus-%s:reread-tree:%s" % (fam, first_kind_diff(dd)), "re-read differs at %s: was %s now %s (%s)" % (dd + (case["path"],)))
    finally:
        shutil.rmtree(d, ignore_errors=True)


def run_case(case, ctx):
    import shutil
    import tempfile

    import xdis.unmarshal
    from xdis.load import load_module_from_file_object, write_bytecode_file

    if case["ver"] == "canary":
        a = {"t": "code", "v": {"co_consts": {"t": "tuple", "v": [{"t": "text", "v": [97]}]}}}
        b = {"t": "code", "v": {"co_consts": {"t": "tuple", "v": [{"t": "bytes", "v": "61"}]}}}
        if tree_diff(a, b):
            ctx.violation("canary-detected", "text vs bytes constant is a difference")
        return
    if case["ver"] == "corpus":
        return run_corpus(case, ctx)
    v = case["ver"]
    ver = common.vt(v)
    vtag = v
    host = sys.version_info[:2]
    d = tempfile.mkdtemp(prefix="verif-c13-")
    try:
        written = []  # (prog, path_kind, outfile)
        for pr in case["progs"]:
            data = unhx(pr["pyc"])
            magic_int = struct.unpack("<H", data[:2])[0]
            kinds = []
            if host == (3, 12):
                kinds.append("portable")
            if host == ver:
                kinds.append("native")
            for kind in kinds:
                ctx.count("attempts_%s_%s" % (kind, vtag))
                try:
                    if kind == "portable":
                        co = xdis.unmarshal.load_code(io.BytesIO(data[pr["hdrlen"]:]), magic_int)
                    else:
                        co = load_module_from_file_object(io.BytesIO(data))[3]
                except Exception as e:
                    ctx.violation("%s:%s:load-raises:%s" % (vtag, kind, type(e).__name__), "%r (%s)" % (e, pr["id"]))
                    continue
                outp = os.path.join(d, "%s-%s.pyc" % (kind, len(written)))
                try:
                    write_bytecode_file(outp, co, magic_int, 0x5F000000, 0x1234)
                except Exception as e:
                    ctx.count("refused_%s_%s" % (kind, vtag))
                    ctx.count("refused_by:%s" % type(e).__name__)
                    continue
                ctx.count("written_%s_%s" % (kind, vtag))
                with open(outp, "rb") as f:
                    out = f.read()
                # header read back (C06 model)
                form, hl = M.mhdr(ver, 0)
                ok_hdr = out[:4] == data[:4]
                ts_off = 8 if ver >= (3, 7) else 4
                if not ok_hdr or struct.unpack("<I", out[ts_off:ts_off + 4])[0] != 0x5F000000 or ("size" in form and struct.unpack("<I", out[ts_off + 4:ts_off + 8])[0] != 0x1234):
                    ctx.violation("%s:%s:header" % (vtag, kind), "written header %s (%s)" % (hx(out[:16]), pr["id"]))
                    continue
                written.append((pr, kind, outp, out, hl))
                orig = os.path.join(d, "orig-%d.pyc" % (len(written) - 1))
                with open(orig, "wb") as f:
                    f.write(data)
                # the header arguments a caller may pass (first program of the block): every combination either is
                # refused or gives a well-formed header for the target version, followed by the same payload
                if pr is case["progs"][0] and kind == "portable":
                    import datetime as _dt

                    TS = [None, 0, 1, 0x5F000000, 2 ** 32 - 1, 2 ** 32 + 7, -1, _dt.datetime(2020, 1, 2, 3, 4, 5), 1.5]
                    FS = [0, None, 1, 0x1234, 2 ** 32 - 1, 2 ** 32 + 7, -1]
                    for ti, ts in enumerate(TS):
                        for fi, fs in enumerate(FS):
                            ctx.count("header_argument_combinations")
                            outq = os.path.join(d, "hdr-%d-%d.pyc" % (ti, fi))
                            try:
                                write_bytecode_file(outq, co, magic_int, ts, fs)
                            except Exception:
                                ctx.count("header_arguments_refused")
                                continue
                            with open(outq, "rb") as f:
                                o2 = f.read()
                            wh = "%s ts=%r filesize=%r" % (pr["id"], ts, fs)
                            bad = None
                            if o2[:4] != data[:4]:
                                bad = "magic"
                            elif ver >= (3, 7) and o2[4:8] != b"\0\0\0\0":
                                bad = "flags"
                            elif isinstance(ts, int) and ts and struct.unpack("<I", o2[ts_off:ts_off + 4])[0] != ts:
                                bad = "timestamp"
                            elif isinstance(ts, _dt.datetime) and struct.unpack("<I", o2[ts_off:ts_off + 4])[0] != int(ts.timestamp()):
                                bad = "timestamp"
                            elif "size" in form and struct.unpack("<I", o2[ts_off + 4:ts_off + 8])[0] != fs:
                                bad = "size"
                            elif o2[hl:] != out[hl:]:
                                bad = "payload-or-header-length"
                            if bad:
                                ctx.violation("%s:header-arguments:%s" % (vtag, bad), "written header %s, payload equal %r (%s)" % (hx(o2[:hl + 4]), o2[hl:] == out[hl:], wh))
        if not written:
            return
        # (a) the target interpreter unmarshals the payload
        answers = common.oracle_batch(v, [{"op": "loads", "payload": hx(out[hl:])} for (pr, kind, outp, out, hl) in written])
        for k, ((pr, kind, outp, out, hl), a) in enumerate(zip(written, answers)):
            where = "%s (%s)" % (pr["id"], kind)
            if "error" in a:
                ctx.violation("%s:%s:target-rejects:%s" % (vtag, kind, a["error"].split(":")[0]), "Python %s cannot load the written file: %s %s" % (v, a["error"][:120], where))
                continue
            # Python 2 code objects are written with text floats (every 2.x reads them): NaN sign/payload is not carried there
            # (DESIGN 3.2); Python 3 targets get binary floats and are compared bit for bit
            dd = tree_diff(pr["tree"], a["tree"], nan_loose=(kind == "portable" and ver < (3, 0)))
            if dd:
                ctx.violation("%s:%s:target-tree:%s" % (vtag, kind, first_kind_diff(dd)), "as loaded by Python %s differs at %s: expected %s got %s %s" % ((v,) + dd + (where,)))
                continue
            # (b) xdis reads it back
            try:
                res = load_module_from_file_object(io.BytesIO(out))
                d2 = tree_diff(pr["tree"], xcanon(res[3], ver), nan_loose=(kind == "portable" and ver < (3, 0)))
                if d2:
                    ctx.violation("%s:%s:xdis-reread:%s" % (vtag, kind, first_kind_diff(d2)), "xdis re-read differs at %s: expected %s got %s %s" % (d2 + (where,)))
            except Exception as e:
                ctx.violation("%s:%s:xdis-reread-raises:%s" % (vtag, kind, type(e).__name__), "%r %s" % (e, where))
            # (c) behaviour
            if pr["id"].endswith("@module") or _TIER[0] == "thorough":
                outs = []
                for p in (os.path.join(d, "orig-%d.pyc" % k), outp):
                    r = subprocess.run([common.interp(v), p], env=common.base_env(host=False), stdout=subprocess.PIPE, stderr=subprocess.PIPE,
                                       cwd=d, timeout=60)
                    import re as _re

                    # object addresses in a printed repr differ from run to run: masked (a harness-side source of
                    # nondeterminism, not part of the program's behaviour)
                    outs.append((r.returncode, _re.sub(br"0x[0-9a-fA-F]{6,}", b"0xADDR", r.stdout)))
                ctx.count("executed_pairs")
                if outs[0] != outs[1]:
                    ctx.violation("%s:%s:behaviour" % (vtag, kind), "original exits %d with %r, rewritten exits %d with %r %s"
                                  % (outs[0][0], outs[0][1][:80], outs[1][0], outs[1][1][:80], where))
            ctx.count("verified_%s_%s" % (kind, vtag))
    finally:
        shutil.rmtree(d, ignore_errors=True)


_TIER = ["quick"]


def worker_init(plan, tier, host):
    _TIER[0] = tier


def summarize(plan, counts, extras, results):
    per = {}
    for k, n in counts.items():
        for pre in ("attempts_", "written_", "refused_", "verified_"):
            if k.startswith(pre) and not k.startswith("refused_by"):
                kind, v = k[len(pre):].split("_")
                per.setdefault(v, {}).setdefault(kind, {})[pre[:-1]] = n
    vac = sorted(v for v, kinds in per.items() if all(kk.get("written", 0) == 0 for kk in kinds.values()))
    att = sum(n for k, n in counts.items() if k.startswith("attempts_"))
    return {"per_version": per, "vacuous_versions_everything_refused": vac, "evaluations": att,
            "distinct_nontrivial": sum(n for k, n in counts.items() if k.startswith("written_")),
            "refused_by_exception": {k[11:]: n for k, n in counts.items() if k.startswith("refused_by:")}}
