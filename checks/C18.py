# C18 - each call's result is independent of what the process did before.
# Explicit-state breadth-first search over histories of public operations; every
# transition runs the *real* function in a freshly forked process that replays
# the history; states are deduplicated by a canonical hash of all xdis module
# state.  This module must not import xdis at import time (children are forked
# from a pristine parent).
import glob
import hashlib
import io
import json
import os
import re
import sys
import time

from vlib import common

ID = "C18"
LEVEL = "model_checking"
ENGINE = "explicit-state BFS over operation histories (checks/C18.py) on the real implementation, fork-per-transition"
TECHNIQUE = ("explicit-state breadth-first search over sequences of public operations (load_module, disassemble_file in six "
             "formats, get_opcode, get_opcode_module, make_std_api, marsh dumps/loads, codeType2Portable, first-import "
             "variants); each transition calls the real function in a process that replays the history; states are merged "
             "by a canonical hash of all xdis module-level state; invariant in every state: every operation returns exactly "
             "what it returns in a fresh process, and returns it again when repeated")
TEXT = ("All histories up to the depth bound are covered modulo state equality: a history ending in an already-visited "
        "process state is not expanded, because the hash covers every xdis.* module dict, function defaults, closure cells "
        "and class dicts (the only write-only sink, the shared code_objects default dict, is abstracted only after a "
        "read-tracking proxy confirms on every run that nothing reads it). Every transition is an execution of the real "
        "code, so there is no separate model to validate.")
NOTE = ("Trusted: the canonical state hash is fine enough (it is checked to be deterministic across processes and to "
        "separate the known mutating operation); state outside xdis.* modules (stdlib caches such as linecache) is not "
        "hashed. Explicit opcode remapping (alternate_opmap) is the documented exception and is not an operation.")
RULE = ("state = canonical hash of xdis module state after a history; transition = (state, operation); BFS from the fresh "
        "process until no new state or the depth bound; every operation's result digest is compared with its digest in a "
        "fresh process and with its own repetition")
ASSUMPTIONS = ["process state relevant to xdis results lives in xdis.* modules (hashed), not in the stdlib",
               "PYTHONHASHSEED=0 so that set/dict iteration order is reproducible"]
EXHAUSTIVE = False

ADDR = re.compile(r"0x[0-9a-fA-F]{6,}")


def max_workers(tier):
    return 1


def bounds(tier):
    return {"depth": 2 if tier == "quick" else 3, "operations": "see coverage.operations"}


def prepare(tier):
    hd = common.datasets("headers", ["3.9", "3.13"])
    pg = common.datasets("progs", ["2.7", "3.6", "3.8", "3.10", "3.11", "3.12", "3.13"], 1)
    return {"headers": hd, "progs": pg, "tier": tier}


def cases(plan, tier, shard, nshards, host):
    yield {"kind": "bfs", "tier": tier}


def case_key(c):
    return "bfs"


def describe(c):
    return c


# ------------------------------------------------------------------ canonical state
def canon_state():
    """canonical JSON-able description of all xdis module-level state"""
    import types

    memo = {}

    def cs(o, depth):
        if o is None or isinstance(o, (bool, int, float, complex)):
            return repr(o)
        if isinstance(o, str):
            return ADDR.sub("0xADDR", o) if len(o) < 400 else "str:%d:%s" % (len(o), hashlib.md5(o.encode("utf-8", "replace")).hexdigest())
        if isinstance(o, (bytes, bytearray)):
            return "b:" + hashlib.md5(bytes(o)).hexdigest()
        oid = id(o)
        if oid in memo:
            return "ref:" + memo[oid]
        if depth > 8:
            return "deep:" + type(o).__name__
        if isinstance(o, types.ModuleType):
            return "module:" + o.__name__
        if isinstance(o, TrackDict):
            return "write-only-sink(reads=%d)" % o.reads if o.reads == 0 else {"sink-read": sorted(ADDR.sub("0xADDR", str(k)) for k in dict.keys(o))}
        tname = type(o).__name__
        memo[oid] = tname
        if isinstance(o, (list, tuple)):
            return [tname] + [cs(e, depth + 1) for e in o]
        if isinstance(o, (set, frozenset)):
            return [tname] + sorted(json.dumps(cs(e, depth + 1), sort_keys=True) for e in o)
        if isinstance(o, dict):
            items = [(json.dumps(cs(k, depth + 1), sort_keys=True), cs(v, depth + 1)) for k, v in list(o.items())]
            items.sort(key=lambda kv: kv[0])
            return {"dict": items}
        if isinstance(o, types.FunctionType):
            cells = []
            for c in (o.__closure__ or ()):
                try:
                    cells.append(cs(c.cell_contents, depth + 1))
                except ValueError:
                    cells.append("empty-cell")
            return {"function": o.__module__ + "." + o.__qualname__, "defaults": cs(o.__defaults__, depth + 1),
                    "kwdefaults": cs(o.__kwdefaults__, depth + 1), "cells": cells}
        if isinstance(o, (types.BuiltinFunctionType, types.MethodType, types.CodeType, staticmethod, classmethod, property)):
            if isinstance(o, (staticmethod, classmethod)):
                return {tname: cs(o.__func__, depth + 1)}
            return tname + ":" + ADDR.sub("0xADDR", repr(o))[:120]
        if isinstance(o, type):
            mod = getattr(o, "__module__", "") or ""
            if mod == "xdis" or mod.startswith("xdis."):
                d = {}
                for k, v in sorted(vars(o).items()):
                    if k in ("__dict__", "__weakref__", "__doc__", "__module__", "__annotations__"):
                        continue
                    d[k] = cs(v, depth + 1)
                return {"class": mod + "." + o.__qualname__, "dict": d}
            return "type:" + mod + "." + o.__qualname__
        mod = getattr(type(o), "__module__", "") or ""
        if mod == "xdis" or mod.startswith("xdis."):
            try:
                return {"inst": mod + "." + type(o).__qualname__, "vars": cs(vars(o), depth + 1)}
            except TypeError:
                return {"inst": mod + "." + type(o).__qualname__, "repr": ADDR.sub("0xADDR", repr(o))[:200]}
        return tname + ":" + ADDR.sub("0xADDR", repr(o))[:200]

    out = {}
    if "xdis.unmarshal" in sys.modules:
        install_sinks()  # so that "sink present" never separates two states by itself
    for name in sorted(sys.modules):
        if name == "xdis" or name.startswith("xdis."):
            m = sys.modules[name]
            if m is None:
                continue
            d = {}
            for k, v in sorted(vars(m).items()):
                # __warningregistry__ is the stdlib's "already warned here" bookkeeping (3.12's co_lnotab deprecation):
                # it can only suppress a repeated warning on stderr, never change a result
                if k in ("__builtins__", "__cached__", "__loader__", "__spec__", "__doc__", "__file__", "__path__", "__warningregistry__"):
                    continue
                d[k] = cs(v, 0)
            out[name] = d
    out["~sys.path0"] = [p for p in sys.path[:3]]
    out["~recursionlimit"] = sys.getrecursionlimit()
    return out


def state_hash(st):
    per = {k: hashlib.md5(json.dumps(v, sort_keys=True).encode("utf-8", "replace")).hexdigest() for k, v in st.items()}
    return hashlib.sha1(json.dumps(per, sort_keys=True).encode()).hexdigest()[:16], per


class TrackDict(dict):
    """read-tracking stand-in for the shared `code_objects={}` default arguments"""
    reads = 0

    def __getitem__(self, k):
        self.reads += 1
        return dict.__getitem__(self, k)

    def get(self, k, d=None):
        self.reads += 1
        return dict.get(self, k, d)

    def __contains__(self, k):
        self.reads += 1
        return dict.__contains__(self, k)

    def __iter__(self):
        self.reads += 1
        return dict.__iter__(self)

    def items(self):
        self.reads += 1
        return dict.items(self)

    def keys(self):
        self.reads += 1
        return dict.keys(self)

    def values(self):
        self.reads += 1
        return dict.values(self)


_SINKS = []


def install_sinks():
    """replace the two shared default dicts by read-tracking ones (first thing after xdis.unmarshal is imported)"""
    if _SINKS:
        return
    import xdis.unmarshal as U

    d1, d2 = TrackDict(), TrackDict()
    f = U.load_code
    if f.__defaults__ and isinstance(f.__defaults__[-1], dict) and not f.__defaults__[-1]:
        f.__defaults__ = f.__defaults__[:-1] + (d1,)
        _SINKS.append(d1)
    g = U._VersionIndependentUnmarshaller.__init__
    if g.__defaults__ and isinstance(g.__defaults__[-1], dict) and not g.__defaults__[-1]:
        g.__defaults__ = g.__defaults__[:-1] + (d2,)
        _SINKS.append(d2)


# ------------------------------------------------------------------ operations
def digest(obj):
    s = json.dumps(obj, sort_keys=True, default=lambda o: ADDR.sub("0xADDR", repr(o)))
    return hashlib.sha1(ADDR.sub("0xADDR", s).encode("utf-8", "replace")).hexdigest()[:16]


def mask(text):
    text = ADDR.sub("0xADDR", text)
    text = re.sub(r"lambda_0xADDR|<lambda>_0xADDR", "lambda_ADDR", text)
    return text


def _ver_of_path(p):
    m = re.search(r"bytecode_(\d)\.(\d+)", p) or re.search(r"-(\d)\.(\d+)\.pyc", p)
    return (int(m.group(1)), int(m.group(2)))


def op_load(path):
    def run():
        from xdis.load import load_module

        install_sinks()
        from vlib.xcanon import xcanon

        try:
            r = load_module(path)
        except ImportError as e:
            return ["ImportError", mask(str(e))[:200]]
        except Exception as e:  # the exception type is C11's business; here only sameness matters
            return ["raises", type(e).__name__, mask(str(e))[:200]]
        return [list(r[0][:2]), r[1], r[2], digest(xcanon(r[3], r[0])), bool(r[4]), r[5], r[6]]

    return run


def op_disasm(path, fmt):
    def run():
        from xdis.disasm import disassemble_file

        install_sinks()
        out = io.StringIO()
        try:
            disassemble_file(path, outstream=out, asm_format=fmt)
        except Exception as e:
            return ["raises", type(e).__name__, mask(str(e))[:200]]
        txt = mask(out.getvalue())
        txt = "\n".join(l for l in txt.splitlines() if not l.startswith("# Disassembled from") and not re.match(r"^# \d\.\d+\.\d+ ", l) and not l.startswith("# [GCC"))
        return hashlib.sha1(txt.encode("utf-8", "replace")).hexdigest()[:16]

    return run


def op_decode(path):
    """programmatic decoding of one file: labels, instruction fields and line starts of every code object,
    through the public per-bytecode entry points (not the listing)"""
    def run():
        from xdis.bytecode import Bytecode, get_instructions_bytes
        from xdis.disasm import get_opcode
        from xdis.load import load_module

        install_sinks()
        from vlib.xcanon import walk_xcodes

        try:
            r = load_module(path)
            opc = get_opcode(r[0], r[4])
            out = []
            for c in walk_xcodes(r[3]):
                out.append([sorted(opc.findlabels(c.co_code, opc)),
                            [[i.offset, i.opname, i.arg, bool(i.is_jump_target)] for i in get_instructions_bytes(c.co_code, opc)],
                            [[i.offset, i.starts_line, bool(i.is_jump_target), mask(str(i.argrepr))[:30]] for i in Bytecode(c, opc)],
                            [list(x) for x in opc.findlinestarts(c)]])
            return digest(out)
        except Exception as e:
            return ["raises", type(e).__name__, mask(str(e))[:120]]

    return run


def _table_digest(opc):
    d = {}
    for k in ("opmap", "opname", "HAVE_ARGUMENT", "hasjrel", "hasjabs", "hasconst", "hasname", "haslocal", "hasfree", "hascompare",
              "EXTENDED_ARG", "oppush", "oppop", "version_tuple", "hasnargs", "hasvargs", "nofollow"):
        v = getattr(opc, k, None)
        if isinstance(v, (set, frozenset)):
            v = sorted(v)
        if isinstance(v, dict):
            v = sorted(v.items())
        d[k] = v
    for k in ("opcode_arg_fmt", "opcode_extended_fmt"):
        v = getattr(opc, k, None)
        d[k] = sorted(v) if isinstance(v, dict) else None
    return digest(d)


def op_get_opcode(vt, pypy):
    def run():
        from xdis.disasm import get_opcode

        return _table_digest(get_opcode(vt, pypy))

    return run


def op_get_opcode_module(vt, variant=None):
    def run():
        from xdis.op_imports import get_opcode_module

        opc = get_opcode_module(vt + (0, "final")) if variant is None else get_opcode_module(vt, variant)
        return [opc.__name__, _table_digest(opc)]

    return run


def op_get_opcode_module_raw(vinfo, variant):
    """the version argument exactly as given (any length, any release level)"""
    def run():
        from xdis.op_imports import get_opcode_module

        opc = get_opcode_module(vinfo) if variant is None else get_opcode_module(vinfo, variant)
        return [opc.__name__, _table_digest(opc)]

    return run


def op_decode_all_opcodes(vt, variant):
    """decode a code string that contains every opcode number once, with the table of (version, variant): name, operand
    class and has-operand of each - what a memo keyed without the variant would mix up"""
    def run():
        from xdis.bytecode import get_instructions_bytes
        from xdis.op_imports import get_opcode_module

        opc = get_opcode_module(vt, variant) if variant else get_opcode_module(vt + (0, "final"))
        code = bytearray()
        for op in range(256):
            if opc.version_tuple >= (3, 6):
                code += bytearray([op, 0])
            else:
                code += bytearray([op]) + (bytearray([0, 0]) if op >= opc.HAVE_ARGUMENT else bytearray())
        out = []
        try:
            for i in get_instructions_bytes(bytes(code), opc):
                out.append([i.opcode, i.opname, i.optype, bool(i.has_arg), i.inst_size])
        except Exception as e:
            out.append(["raises", type(e).__name__])
        return digest(out)

    return run


def _sample_fn(a, b=2):
    x = [i for i in range(a) if i != b]
    try:
        return x[0] + b
    except IndexError:
        return None


def op_std_api(vt, variant=None):
    def run():
        from xdis.std import make_std_api

        api = make_std_api(vt, variant) if variant else make_std_api(vt)
        res = [sorted(api.opmap.items()), list(api.opname), sorted(api.hasconst), api.HAVE_ARGUMENT]
        if tuple(vt[:2]) == sys.version_info[:2] and len(vt) == 2:
            res.append([[i.opname, i.arg, mask(repr(i.argval))[:40], i.offset, i.starts_line, bool(i.is_jump_target)] for i in api.get_instructions(_sample_fn)])
            res.append(sorted(api.findlabels(_sample_fn.__code__.co_code)))
        return digest(res)

    return run


def op_marsh_dumps(which):
    def run():
        import xdis.marsh

        val = {"tuple": (1, "two", 3.5, None, (b"four", 5 + 6j), [7, {8: 9}], frozenset([10])), "bigint": [2 ** 70, -2 ** 31, 2 ** 15],
               "text": ["", "a", "\xe9", "€"]}[which]
        try:
            return digest(repr(xdis.marsh.dumps(val)))
        except Exception as e:
            return ["raises", type(e).__name__]

    return run


def op_marsh_loads(which, plan):
    def run():
        import marshal

        import xdis.marsh

        if which == "plain":
            data, ver = marshal.dumps((1, "two", 3.5, None, (4, 5)), 0), None
        else:
            # an ordinary Python 2.7 code object
            data, ver = plan["py27_payload"], (2, 7)
        try:
            r = xdis.marsh.loads(data, ver)
            from vlib.xcanon import xcanon

            return digest(xcanon(r, ver or sys.version_info[:2]))
        except Exception as e:
            return ["raises", type(e).__name__, mask(str(e))[:120]]

    return run


def op_portable():
    def run():
        from xdis.codetype import codeType2Portable

        from vlib.xcanon import xcanon

        p = codeType2Portable(_sample_fn.__code__)
        return [type(p).__name__, digest(xcanon(p, sys.version_info[:2]))]

    return run


def op_import(modname):
    def run():
        __import__(modname)
        return "imported"

    return run


def build_ops(plan, workdir):
    """the operation alphabet: name -> callable; deterministic order, simplest first"""
    from gen.canon import unhx

    test = os.path.join(common.REPO, "test")

    def first(pat, prefer=None):
        fs = sorted(glob.glob(os.path.join(test, pat)), key=lambda p: (os.path.getsize(p), p))
        if prefer:
            for f in fs:
                if prefer in f:
                    return f
        return fs[0] if fs else None

    files = {}
    for fam, pat in (("1.5", "bytecode_1.5/*.pyc"), ("2.4", "bytecode_2.4/*.pyc"), ("2.5", "bytecode_2.5/*.pyc"),
                     ("2.5dropbox", "bytecode_2.5dropbox/*.pyc"), ("2.7", "bytecode_2.7/*.pyc"), ("2.7pypy", "bytecode_2.7pypy/*.pyc"),
                     ("3.0", "bytecode_3.0/*.pyc"), ("3.3", "bytecode_3.3/*.pyc"), ("3.5", "bytecode_3.5/*.pyc"), ("3.6", "bytecode_3.6/*.pyc"),
                     ("3.8", "bytecode_3.8/*.pyc"), ("3.10", "bytecode_3.10/*.pyc"), ("3.11", "bytecode_3.11/*.pyc"), ("3.12", "bytecode_3.12/*.pyc")):
        f = first(pat)
        if f and os.path.getsize(f) >= 50:
            files[fam] = f
        elif f:
            fs = [x for x in sorted(glob.glob(os.path.join(test, pat)), key=os.path.getsize) if os.path.getsize(x) >= 50]
            if fs:
                files[fam] = fs[0]
    # synthesised files: 3.13, a hash-based 3.9 pyc, a corrupt one, a 2.7 payload
    for idx, rec in common.read_dataset(plan["progs"]["3.13"]):
        if idx >= 0 and rec["id"] == "ex_try@function":
            p = os.path.join(workdir, "ex_try-3.13.pyc")
            with open(p, "wb") as f:
                f.write(unhx(rec["pyc"]))
            files["3.13"] = p
            break
    for idx, rec in common.read_dataset(plan["progs"]["2.7"]):
        if idx >= 0 and rec["id"] == "fn_defaults@module":
            plan["py27_payload"] = unhx(rec["pyc"])[rec["hdrlen"]:]
            break
    # control-flow-rich files of neighbouring versions (loops, generators, async): the per-version decoding rules
    # (jump scaling, backward jumps, inline caches) differ between them, so cross-version leakage has something to hit
    rich = {}
    quick = plan.get("tier") != "thorough"
    for v in (("3.8", "3.11", "3.12", "3.13") if quick else ("2.7", "3.6", "3.8", "3.10", "3.11", "3.12", "3.13")):
        for idx, rec in common.read_dataset(plan["progs"][v]):
            if idx >= 0 and rec["id"] in (("cf_for_nested@function", "gen_async_for@module") if quick else ("cf_for_nested@function", "gen_async_for@module", "ex_try_loop@function")):
                if v == "2.7" and rec["id"] == "gen_async_for@module":
                    continue
                p = os.path.join(workdir, "%s-%s.pyc" % (rec["id"].replace("@", "_"), v))
                with open(p, "wb") as f:
                    f.write(unhx(rec["pyc"]))
                rich.setdefault(v, []).append(p)
    plan["rich"] = rich
    # a file whose line numbers need more than three digits (listing column widths), compiled by the host itself
    import importlib.util
    import marshal
    import struct as _st

    src = "a = 1\n" + "\n" * 1234 + "def f(p):\n    return p + a\n" + "\n" * 9000 + "b = f(2)\n"
    co = compile(src, "<bigline>", "exec")
    bl = os.path.join(workdir, "bigline-host.pyc")
    with open(bl, "wb") as f:
        f.write(importlib.util.MAGIC_NUMBER + _st.pack("<III", 0, 0x5F000000, len(src)) + marshal.dumps(co))
    plan["bigline"] = bl
    plan["_mods"] = None
    for idx, rec in common.read_dataset(plan["headers"]["3.9"]):
        if idx >= 0 and rec["id"] == "real:CHECKED_HASH":
            p = os.path.join(workdir, "hash-3.9.pyc")
            with open(p, "wb") as f:
                f.write(unhx(rec["pyc"]))
            files["hash"] = p
            q = os.path.join(workdir, "corrupt-3.9.pyc")
            with open(q, "wb") as f:
                f.write(unhx(rec["pyc"])[:70])
            files["corrupt"] = q
    quick = plan.get("tier") != "thorough"
    ops = []
    for modname in ("xdis", "xdis.opcodes.opcode_313", "xdis.std", "xdis.marsh"):
        ops.append(("import:" + modname, op_import(modname)))
    for fam in sorted(files, key=lambda k: (len(k), k)):
        ops.append(("load:" + fam, op_load(files[fam])))
    for vt, pypy in (((2, 7), False), ((2, 7), True), ((3, 6), False), ((3, 8), False), ((3, 8), True), ((3, 10), False), ((3, 12), False), ((3, 13), False), ((1, 5), False)):
        ops.append(("get_opcode:%d.%d%s" % (vt[0], vt[1], "pypy" if pypy else ""), op_get_opcode(vt, pypy)))
    for vt in ((2, 4), (3, 5), (3, 9), (3, 11), (2, 7), (3, 8)):
        ops.append(("get_opcode_module:%d.%d" % vt, op_get_opcode_module(vt)))
    # every (version, variant)-parameterised entry point with both variants of one version
    for vt in ((2, 7), (3, 8)):
        ops.append(("get_opcode_module:%d.%dpypy" % vt, op_get_opcode_module(vt, "pypy")))
        ops.append(("make_std_api:%d.%dpypy" % vt, op_std_api(vt, "pypy")))
    ops.append(("make_std_api:3.8", op_std_api((3, 8))))
    # version arguments that are not rows of xdis's tables: a patch level it has never heard of (resolved by falling back
    # to major.minor - whatever that fallback records must not leak into later calls), for both variants, both getters
    for vt3 in ((3, 10, 19), (2, 7, 99)):
        tag = "%d.%d.%d" % vt3
        ops.append(("get_opcode_module:%s" % tag, op_get_opcode_module_raw(vt3, None)))
        ops.append(("get_opcode_module:%spypy" % tag, op_get_opcode_module_raw(vt3, "pypy")))
        ops.append(("make_std_api:%s" % tag, op_std_api(vt3)))
        ops.append(("make_std_api:%spypy" % tag, op_std_api(vt3, "pypy")))
    ops.append(("get_opcode_module:3.12.0rc", op_get_opcode_module_raw((3, 12, 0, "candidate", 1), None)))
    # every opcode number through the decoder, with both table variants of the versions that have two
    for vt in (((2, 7), (3, 7), (3, 9), (3, 10)) if quick else ((2, 6), (2, 7), (3, 2), (3, 3), (3, 5), (3, 6), (3, 7), (3, 8), (3, 9), (3, 10))):
        ops.append(("decode-all-opcodes:%d.%d" % vt, op_decode_all_opcodes(vt, None)))
        ops.append(("decode-all-opcodes:%d.%dpypy" % vt, op_decode_all_opcodes(vt, "pypy")))
    for vt in ((2, 7), (3, 4), (3, 7), (3, 11), sys.version_info[:2], (3, 13)):
        ops.append(("make_std_api:%d.%d" % tuple(vt), op_std_api(tuple(vt))))
    for w in ("tuple", "bigint", "text"):
        ops.append(("marsh.dumps:" + w, op_marsh_dumps(w)))
    ops.append(("marsh.loads:plain", op_marsh_loads("plain", plan)))
    ops.append(("marsh.loads:py27code", op_marsh_loads("py27code", plan)))
    ops.append(("codeType2Portable", op_portable()))
    for v in sorted(plan["rich"], key=common.vt):
        for p in plan["rich"][v]:
            ops.append(("disasm-rich:%s:%s" % (v, os.path.basename(p).split("-")[0]), op_disasm(p, "classic")))
            if p == plan["rich"][v][0] or not quick:
                ops.append(("decode-rich:%s:%s" % (v, os.path.basename(p).split("-")[0]), op_decode(p)))
    ops.append(("disasm-bigline:host:classic", op_disasm(plan["bigline"], "classic")))
    # constants that are == but distinct (0.0 / -0.0, (1, 2) / (1.0, 2.0), 1 / True) in two different files
    for nm, srcs in (("zero", "x = 0.0\ny = (1, 2)\nz = [1, 2, True]\n"), ("negzero", "x = -0.0\ny = (1.0, 2.0)\nz = [1.0, 2.0, 1]\n")):
        co2 = compile(srcs, "<eqconst-%s>" % nm, "exec")
        pth = os.path.join(workdir, "eqconst-%s.pyc" % nm)
        with open(pth, "wb") as f:
            f.write(importlib.util.MAGIC_NUMBER + _st.pack("<III", 0, 0x5F000000, len(srcs)) + marshal.dumps(co2))
        ops.append(("disasm-eqconst:%s" % nm, op_disasm(pth, "classic")))
    if not quick:
        # thorough: one file of *every* corpus family through load / classic / extended, and every (version, variant)
        # table the library knows through both table getters
        for d in sorted(glob.glob(os.path.join(test, "bytecode_*"))):
            fam = os.path.basename(d)[9:]
            fs = sorted((os.path.getsize(f), f) for f in glob.glob(os.path.join(d, "*.pyc")) if 100 <= os.path.getsize(f) <= 4000)
            if not fs or "dropbox" in fam:
                continue
            f = fs[len(fs) // 2][1]
            ops.append(("fam-load:" + fam, op_load(f)))
            ops.append(("fam-disasm:%s:classic" % fam, op_disasm(f, "classic")))
            ops.append(("fam-disasm:%s:extended" % fam, op_disasm(f, "extended")))
        for vt, pypy in (((1, 0), False), ((1, 3), False), ((1, 4), False), ((1, 6), False), ((2, 0), False), ((2, 1), False), ((2, 2), False), ((2, 3), False),
                         ((2, 5), False), ((2, 6), False), ((2, 6), True), ((3, 0), False), ((3, 1), False), ((3, 2), False), ((3, 2), True), ((3, 3), False),
                         ((3, 3), True), ((3, 4), False), ((3, 5), False), ((3, 5), True), ((3, 6), True), ((3, 7), False), ((3, 7), True), ((3, 9), False),
                         ((3, 9), True), ((3, 10), True), ((3, 11), False)):
            ops.append(("get_opcode:%d.%d%s" % (vt[0], vt[1], "pypy" if pypy else ""), op_get_opcode(vt, pypy)))
        for vt in ((3, 6), (3, 9), (3, 10)):
            ops.append(("get_opcode_module:%d.%dpypy" % vt, op_get_opcode_module(vt, "pypy")))
            ops.append(("make_std_api:%d.%dpypy" % vt, op_std_api(vt, "pypy")))
            ops.append(("make_std_api:%d.%d" % vt, op_std_api(vt)))
        seen_names = set()
        ops = [o for o in ops if not (o[0] in seen_names or seen_names.add(o[0]))]
    # same version, different variant (CPython / PyPy tables share a version tuple): extended listings of both
    for fam, pat in (("2.7pypy", "bytecode_2.7pypy/*.pyc"), ("pypy37", "bytecode_pypy37/*.pyc"), ("3.7", "bytecode_3.7/*.pyc"),
                     ("pypy38", "bytecode_pypy38/*.pyc"), ("pypy36", "bytecode_pypy36/*.pyc"), ("3.6", "bytecode_3.6/*.pyc")):
        if quick and fam in ("pypy36", "3.6"):
            continue
        every = sorted((os.path.getsize(f), f) for f in glob.glob(os.path.join(test, pat)))
        fs = [x for x in every if 200 <= x[0] <= 3000] or every[:1]   # a family with one (larger) file still gets its op
        if fs:
            ops.append(("disasm-variant:%s:extended" % fam, op_disasm(fs[-1][1], "extended")))
    for fam in ("2.7", "3.8", "3.12"):
        if fam in files:
            for fmt in ("classic", "bytes", "extended", "extended-bytes", "xasm", "header"):
                ops.append(("disasm:%s:%s" % (fam, fmt), op_disasm(files[fam], fmt)))
    return ops


# ------------------------------------------------------------------ one execution
_OPS = {}


def _safe(name):
    """an operation that raises is an outcome like any other (sameness is what is judged here)"""
    try:
        return _OPS[name]()
    except Exception as e:
        return ["raises", type(e).__name__, mask(str(e))[:160]]


def execute(task):
    """runs in a freshly forked child: replay `history`, then `op` twice"""
    history, opname = task[0], task[1]
    want_state = len(task) < 3 or task[2]
    t0 = time.time()
    out = {"history": history, "op": opname}
    try:
        for h in history:
            _safe(h)
        d1 = _safe(opname)
        if want_state:
            h1, per = state_hash(canon_state())
        else:
            h1, per = "not-hashed", {}
        d2 = _safe(opname)
        out.update({"d1": d1, "d2": d2, "state": h1, "per_module": per, "sink_reads": sum(s.reads for s in _SINKS)})
    except BaseException as e:  # noqa
        import traceback

        out["crash"] = "%s: %s" % (type(e).__name__, traceback.format_exc()[-600:])
    out["wall"] = time.time() - t0
    return out


def canary_cases(plan, tier, host):
    yield {"kind": "canary", "tier": tier}


def _canary_mutate():
    import xdis.opcodes.opcode_38 as m

    m.opmap["LOAD_CONST"] = 1
    return "mutated"


def run_canary(ctx):
    """a planted operation that edits a table later calls read must be reported by the same comparison"""
    import multiprocessing as mp

    _OPS["canary:mutate"] = _canary_mutate
    _OPS["get_opcode:3.8"] = op_get_opcode((3, 8), False)
    with mp.get_context("fork").Pool(2, maxtasksperchild=1) as pool:
        a, b = pool.map(execute, [([], "get_opcode:3.8"), (["canary:mutate"], "get_opcode:3.8")], chunksize=1)
    if a.get("d1") != b.get("d1") and a.get("state") != b.get("state"):
        ctx.violation("canary-detected", "planted table mutation changes digest and state hash")


def run_case(case, ctx):
    import multiprocessing as mp
    import tempfile

    if case["kind"] == "canary":
        return run_canary(ctx)
    tier = case["tier"]
    depth = 2 if tier == "quick" else 3
    plan = prepare(tier)
    workdir = tempfile.mkdtemp(prefix="verif-c18-")
    try:
        assert "xdis" not in sys.modules, "C18 parent must be pristine"
        ops = build_ops(plan, workdir)
        _OPS.update(dict(ops))
        names = [n for n, _ in ops]
        mpctx = mp.get_context("fork")

        def run_all(tasks):
            with mpctx.Pool(processes=common.NCPU, maxtasksperchild=1) as pool:
                return pool.map(execute, tasks, chunksize=1)

        # level 0: every operation in a fresh process = the reference digests; run twice to check determinism
        fresh = {}
        states = {}  # hash -> shortest history
        per_module = {}
        transitions = 0
        edges = []
        r0 = run_all([([], n) for n in names] + [([], n) for n in names])
        half = len(names)
        for a, b in zip(r0[:half], r0[half:]):
            if "crash" in a or "crash" in b:
                ctx.violation("harness:crash:" + a["op"], (a.get("crash") or b.get("crash"))[:300])
                continue
            if a["d1"] != b["d1"] or a["state"] != b["state"]:
                ctx.violation("nondeterministic:" + a["op"], "two fresh processes disagree on %s (digest %s/%s state %s/%s)"
                              % (a["op"], a["d1"], b["d1"], a["state"], b["state"]))
                continue
            fresh[a["op"]] = a["d1"]
        root = "fresh"
        pair_bad = set()
        states[root] = []
        frontier = []

        def account(res):
            new = []
            for r in res:
                ctx.count("transitions")
                if "crash" in r:
                    ctx.violation("harness:crash:" + r["op"], r["crash"][:300])
                    continue
                prefix = r["history"][-1].split(":")[0] if r["history"] else "fresh"
                if r["op"] in fresh and r["d1"] != fresh[r["op"]]:
                    # signature: the shortest already-known culprit inside the history, else the whole history
                    culprit = "+".join(r["history"]) or "fresh"
                    if len(r["history"]) == 1:
                        pair_bad.add((r["history"][0], r["op"]))
                    else:
                        for h in r["history"]:
                            if (h, r["op"]) in pair_bad:
                                culprit = h
                                break
                    ctx.violation("differs-after:%s=>%s" % (culprit, r["op"]),
                                  "%s returns %s after %s, but %s in a fresh process" % (r["op"], r["d1"], r["history"], fresh[r["op"]]))
                if r["d2"] != r["d1"]:
                    ctx.violation("repeat-differs:%s" % r["op"], "%s returned %s then %s when repeated after %s" % (r["op"], r["d1"], r["d2"], r["history"]))
                if r.get("sink_reads"):
                    ctx.count("sink_reads", r["sink_reads"])
                edges.append((tuple(r["history"]), r["op"], r["state"]))
                if r["state"] != "not-hashed" and r["state"] not in states:
                    states[r["state"]] = r["history"] + [r["op"]]
                    per_module[r["state"]] = r["per_module"]
                    new.append(r["history"] + [r["op"]])
            return new

        frontier = account(r0[:half])
        level = 1
        fix = False
        while frontier and level < depth:
            tasks = [(h, n) for h in frontier for n in names]
            res = run_all(tasks)
            frontier = account(res)
            level += 1
        if not frontier:
            fix = True
        # stateless sweep: ordered pairs (a, b) executed regardless of state merging, so that history dependence
        # through state the hash does not cover (stdlib caches, C-level state) is still exercised at depth 2
        suspects = [n for n in names if n.startswith(("disasm-rich:", "disasm-variant:", "decode-rich:", "disasm-bigline:", "disasm-eqconst:")) or n.endswith("pypy") or n in ("get_opcode_module:2.7", "get_opcode_module:3.8", "make_std_api:3.8")] + ["load:2.5dropbox", "load:corrupt", "load:3.12", "load:2.7pypy", "disasm:3.8:extended", "disasm:2.7:xasm",
                    "make_std_api:2.7", "marsh.loads:py27code", "get_opcode:2.7pypy"]
        firsts = names if tier == "thorough" else [n for n in suspects if n in names]
        done = set((tuple(e[0]), e[1]) for e in edges)
        tasks = [([a], b, False) for a in firsts for b in names if ((a,), b) not in done]
        swept = account(run_all(tasks))
        ctx.count("stateless_pairs", len(tasks))
        if swept:
            fix = False
        # which modules separate the states (diagnostic, also shows the hash is not trivially coarse)
        base = None
        sep = {}
        for sh, pm in per_module.items():
            if base is None:
                base = pm
                continue
            diff = sorted(k for k in set(pm) | set(base) if pm.get(k) != base.get(k))
            sep[" > ".join(states[sh])] = diff[:6]
        ctx.extra = {"states": len(states), "transitions": ctx.counts.get("transitions", 0), "depth_completed": level,
                     "fixpoint_reached": fix, "operations": names, "distinct_outcomes_per_op_max": 1,
                     "state_histories": {k: v for k, v in list(states.items())[:40]}, "state_separators": dict(list(sep.items())[:20]),
                     "sink_reads": ctx.counts.get("sink_reads", 0),
                     "sample_edges": [list(e[0]) + ["=>", e[1], "->", e[2]] for e in edges[:3] + edges[-3:]]}
    finally:
        import shutil

        shutil.rmtree(workdir, ignore_errors=True)


def worker_fini(ctx):
    return getattr(ctx, "extra", None)


def summarize(plan, counts, extras, results):
    e = extras[0] if extras else {}
    return {
        "states": e.get("states", 0), "transitions": e.get("transitions", 0),
        "traces_validated_against_impl": e.get("transitions", 0),
        "evaluations": max(1, e.get("transitions", 0)), "distinct_nontrivial": max(e.get("states", 0), 0),
        "max_depth_completed": e.get("depth_completed"), "fixpoint_reached": e.get("fixpoint_reached"),
        "operations": e.get("operations"), "state_histories": e.get("state_histories"),
        "state_separators": e.get("state_separators"), "write_only_sink_reads_observed": e.get("sink_reads"),
        "samples": e.get("sample_edges") or ["none"],
        "explanation": "every transition executes the real public function after replaying its history in a fresh process; "
                       "traces_validated_against_impl equals transitions because there is no separate model",
    }
