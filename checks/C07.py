# C07 - results do not depend on the host Python or on which loader path is taken.
import glob
import hashlib
import io
import json
import os
import re
import sys
import types

from gen.canon import unhx
from vlib import common

ID = "C07"
LEVEL = "exploration"
TECHNIQUE = ("exhaustive enumeration of the configuration matrix: every file of a bounded set (compiled G-programs of the nine "
             "reference versions + the historical corpus) is decoded on each of the six hosts; per file a digest of the "
             "canonical code tree, full instruction stream, labels, line starts and classic/extended listing text is computed "
             "and all hosts must agree; on the host whose version equals the file's, the native fast path, the portable "
             "unmarshaller and codeType2Portable(native) are compared with each other (trees, streams, listings)")
TEXT = ("Differential across the whole 6 hosts x 3 loader paths matrix with no hand-written expectation: any disagreement "
        "between two hosts, or between the native and the portable path on one host, on any decoded field, instruction field "
        "or listing character (addresses and the host banner masked) is a violation.")
NOTE = ("Trusted: nothing beyond the masking rules (object addresses, 'lambda_0x..' names, the three banner lines naming the "
        "host). Agreement of all hosts on a wrong answer is invisible here; that is what C01-C05 are for.")
RULE = ("case = one file on one host (6 evaluations per file); distinct = distinct files; a file is non-trivial when at least "
        "two hosts produced a digest for it")
ASSUMPTIONS = ["hosts are the six interpreters able to import the package (3.8-3.13)"]
ADDR = re.compile(r"0x[0-9a-fA-F]{6,}")
# repr() of a nested code object: native  <code object NAME at 0x.., file "F", line N>
#                                 portable <CodeNN code object NAME at 0x.., file F>, line N
CODEREPR = re.compile(r'<(?:Code\w+ )?code object (.+?) at 0xADDR, file (?:\\?")?(.*?)(?:\\?")?>?, line (\d+)>?')


def norm_coderepr(text):
    return CODEREPR.sub(lambda m: "<code object %s, file %s, line %s>" % (m.group(1), m.group(2), m.group(3)), text)


def hosts(tier):
    return common.HOSTS


def workers_for_host(tier, host):
    return {"3.8": 4, "3.9": 4, "3.11": 2, "3.12": 2, "3.13": 2, "3.10": 2}.get(host, 2)


def bounds(tier):
    return {"hosts": common.HOSTS, "paths": ["native fast path", "portable unmarshaller", "native code object argument"],
            "files": "G-programs k=1 (quick: @module scope, pyc <= 1300 bytes; thorough: all four scopes, any size) x 9 versions + corpus (quick <= 6 KB, thorough <= 100 KB)"}


def prepare(tier):
    # thorough = every scope of every k=1 program and the whole corpus on all six hosts (k=2 would be ~45k files x 6
    # hosts x 3 decodings: hours); pairs of statements add nothing host-specific beyond what C01/C12 thorough cover
    return {"progs": common.datasets("progs", common.REFS, 1), "tier": tier}


def cases(plan, tier, shard, nshards, host):
    for v in common.REFS:
        for idx, rec in common.read_dataset(plan["progs"][v], shard, nshards):
            if idx < 0:
                continue
            if tier == "quick" and (len(rec["pyc"]) > 2600 or not rec["id"].endswith("@module")):
                continue
            yield {"kind": "prog", "fid": "%s:%s" % (v, rec["id"]), "ver": rec["ver"], "pyc": rec["pyc"], "hdrlen": rec["hdrlen"]}
    n = 0
    for f in sorted(glob.glob(os.path.join(common.REPO, "test", "bytecode_*", "*.pyc"))):
        if os.path.getsize(f) > (6000 if tier == "quick" else 100000) or "dropbox" in f:
            continue
        n += 1
        if n % nshards == shard:
            yield {"kind": "corpus", "fid": "corpus:" + os.path.relpath(f, common.REPO), "path": os.path.relpath(f, common.REPO)}


def case_key(c):
    return c["fid"]


def describe(c):
    return {"file": c["fid"], "host": list(sys.version_info[:2])}


def canary_cases(plan, tier, host):
    yield {"kind": "canary", "fid": "canary"}


_SCRATCH = []
_DIGESTS = {}


def worker_init(plan, tier, host):
    import atexit
    import shutil
    import tempfile

    d = tempfile.mkdtemp(prefix="verif-c07-")
    _SCRATCH.append(d)
    atexit.register(lambda: shutil.rmtree(d, ignore_errors=True))


def mask(text):
    text = ADDR.sub("0xADDR", text)
    out = []
    for ln in text.splitlines():
        if ln.startswith("# Disassembled from") or re.match(r"^# (\[GCC|\d+\.\d+\.\d+ \()", ln) or ln.startswith("# pydisasm version"):
            continue
        out.append(ln)
    return "\n".join(out)


def inst_tuple(i, ver):
    from vlib.xargval import xargval

    return [bool(i.is_jump_target), i.starts_line, i.offset, i.opname, i.opcode, bool(i.has_arg), i.arg,
            xargval(i.argval, ver) if i.arg is not None else None, ADDR.sub("0xADDR", str(i.argrepr)), i.optype, i.inst_size,
            bool(i.has_extended_arg)]


def decode(co, opc, ver):
    """everything the property lists, for one (portable or native) code object tree"""
    from xdis.bytecode import Bytecode
    from vlib.xcanon import walk_xcodes, xcanon

    parts = {"tree": xcanon(co, ver), "codes": []}
    for c in walk_xcodes(co):
        parts["codes"].append({
            "insts": [inst_tuple(i, ver) for i in Bytecode(c, opc, dup_lines=False)],
            "labels": sorted(opc.findlabels(c.co_code, opc)),
            "linestarts": [list(x) for x in opc.findlinestarts(c)],
        })
    return parts


def dg(o):
    return hashlib.sha1(json.dumps(o, sort_keys=True, default=str).encode("utf-8", "replace")).hexdigest()[:16]


def listing(path, fmt):
    from xdis.disasm import disassemble_file

    out = io.StringIO()
    disassemble_file(path, outstream=out, asm_format=fmt)
    return mask(out.getvalue())


def first_diff(a, b, path=""):
    if type(a) is not type(b):
        return path, a, b
    if isinstance(a, dict):
        for k in sorted(set(a) | set(b)):
            if a.get(k) != b.get(k):
                return first_diff(a.get(k), b.get(k), path + "/" + str(k))
    if isinstance(a, list):
        if len(a) != len(b):
            return path + "#len", len(a), len(b)
        for i, (x, y) in enumerate(zip(a, b)):
            if x != y:
                return first_diff(x, y, "%s[%d]" % (path, i))
    return path, a, b


def run_case(case, ctx):
    import xdis.unmarshal
    from xdis.codetype import codeType2Portable
    from xdis.disasm import get_opcode
    from xdis.load import load_module, load_module_from_file_object

    host = sys.version_info[:2]
    htag = "%d.%d" % host
    if case["kind"] == "canary":
        a = {"x": {"tree": "t1", "classic": "l1"}}
        b = {"x": {"tree": "t1", "classic": "l2"}}
        if list(compare_hosts({"3.8": a, "3.9": b})):
            ctx.violation("canary-detected", "cross-host comparison flags a differing listing digest")
        return
    scratch = _SCRATCH[0]
    if case["kind"] == "prog":
        data = unhx(case["pyc"])
        path = os.path.join(scratch, "m.pyc")
        with open(path, "wb") as f:
            f.write(data)
    else:
        path = os.path.join(common.REPO, case["path"])
        with open(path, "rb") as f:
            data = f.read()
    out = {}
    try:
        res = load_module(path)
    except Exception as e:
        _DIGESTS[case["fid"]] = {"load": "raises:%s" % type(e).__name__}
        return
    ver = tuple(res[0][:2])
    is_pypy = res[4]
    co = res[3]
    try:
        opc = get_opcode(ver, is_pypy)
        parts = decode(co, opc, ver)
        out["tree"] = dg(parts["tree"])
        out["stream"] = dg([c["insts"] for c in parts["codes"]])
        out["stream~"] = dg(norm_coderepr(json.dumps([c["insts"] for c in parts["codes"]], default=str, sort_keys=True)))
        out["labels"] = dg([c["labels"] for c in parts["codes"]])
        out["linestarts"] = dg([c["linestarts"] for c in parts["codes"]])
        out["header"] = dg([list(res[0][:2]), res[1], res[2], bool(res[4]), res[5], res[6]])
    except Exception as e:
        out["decode"] = "raises:%s" % type(e).__name__
    for fmt in ("classic", "extended"):
        try:
            txt = listing(path, fmt)
            out[fmt] = dg(txt)
            out[fmt + "~"] = dg(norm_coderepr(txt))
        except Exception as e:
            out[fmt] = "raises:%s" % type(e).__name__
    _DIGESTS[case["fid"]] = out
    ctx.count("files")
    # loader paths on the host whose version is the file's
    if isinstance(co, types.CodeType) and "decode" not in out:
        ctx.count("native_fast_path_files")
        magic_int = res[2]
        hl = case.get("hdrlen") or (16 if ver >= (3, 7) else 12)
        try:
            pco = xdis.unmarshal.load_code(io.BytesIO(data[hl:]), magic_int)
            p2 = decode(pco, opc, ver)
            conv = decode(codeType2Portable(co), opc, ver)
        except Exception as e:
            ctx.violation("%s:paths:raises:%s" % (htag, type(e).__name__), "%r (%s)" % (e, case["fid"]))
            return
        for name, other in (("portable-unmarshaller", p2), ("codeType2Portable", conv)):
            if other["tree"] != parts["tree"]:
                d = first_diff(parts["tree"], other["tree"])
                ctx.violation("%s:native-vs-%s:tree" % (htag, name), "trees differ at %s: native %s, %s %s (%s)" % (d[0], str(d[1])[:80], name, str(d[2])[:80], case["fid"]))
            elif other["codes"] != parts["codes"]:
                d = first_diff(parts["codes"], other["codes"])
                fld = "insts" if "/insts" in d[0] else ("labels" if "/labels" in d[0] else "linestarts")
                na = norm_coderepr(json.dumps(parts["codes"], default=str, sort_keys=True))
                nb = norm_coderepr(json.dumps(other["codes"], default=str, sort_keys=True))
                if na == nb:
                    ctx.violation("native-vs-portable:code-object-repr:argrepr", "argrepr of a code-object constant: native %s, portable %s (%s on host %s)"
                                  % (str(d[1])[:90], str(d[2])[:90], case["fid"], htag))
                    continue
                ctx.violation("%s:native-vs-%s:%s" % (htag, name, fld), "differs at %s: native %s, other %s (%s)" % (d[0], str(d[1])[:80], str(d[2])[:80], case["fid"]))
        # listing from a portable object must equal the listing from the native one
        try:
            from xdis.disasm import disco

            for fmt in ("classic", "extended"):
                texts = []
                for obj in (co, pco):
                    buf = io.StringIO()
                    disco(res[0], obj, res[1], out=buf, is_pypy=res[4], magic_int=res[2], source_size=res[5], sip_hash=res[6], asm_format=fmt)
                    texts.append(mask(buf.getvalue()))
                if texts[0] != texts[1] and norm_coderepr(texts[0]) == norm_coderepr(texts[1]):
                    ctx.violation("native-vs-portable:code-object-repr:listing:%s" % fmt, "listing differs only in the repr() of nested code "
                                  "objects (%s on host %s)" % (case["fid"], htag))
                elif texts[0] != texts[1]:
                    la, lb = texts[0].splitlines(), texts[1].splitlines()
                    k = next((i for i, (x, y) in enumerate(zip(la, lb)) if x != y), min(len(la), len(lb)))
                    ctx.violation("%s:native-vs-portable-listing:%s" % (htag, fmt), "line %d: native %r, portable %r (%s)"
                                  % (k, la[k][:80] if k < len(la) else None, lb[k][:80] if k < len(lb) else None, case["fid"]))
        except Exception as e:
            ctx.violation("%s:paths-listing:raises:%s" % (htag, type(e).__name__), "%r (%s)" % (e, case["fid"]))


def worker_fini(ctx):
    return {"host": ctx.host, "digests": _DIGESTS}


def compare_hosts(by_host):
    """yield (field, fid, {digest: [hosts]}) for every file/field on which the hosts disagree"""
    fids = set()
    for h, d in by_host.items():
        fids |= set(d)
    for fid in sorted(fids):
        present = {h: by_host[h][fid] for h in by_host if fid in by_host[h]}
        if len(present) < 2:
            continue
        fields = set()
        for d in present.values():
            fields |= set(d)
        for fld in sorted(fields):
            if fld.endswith("~"):
                continue
            groups = {}
            for h, d in present.items():
                groups.setdefault(d.get(fld, "absent"), []).append(h)
            if len(groups) > 1:
                only_repr = False
                if any((fld + "~") in d for d in present.values()):
                    only_repr = len(set(d.get(fld + "~", "absent") for d in present.values())) == 1
                yield fld, fid, groups, only_repr


def cross_check(plan, extras, results):
    by_host = {}
    for e in extras:
        by_host.setdefault(e["host"], {}).update(e["digests"])
    out = []
    for fld, fid, groups, only_repr in compare_hosts(by_host):
        if only_repr:
            out.append(("hosts-disagree:code-object-repr:%s" % fld, "hosts disagree on %s of %s only in the repr() of nested code objects: %s"
                        % (fld, fid, {k: sorted(v) for k, v in groups.items()}), {"fid": fid, "field": fld}, sorted(min(groups.values(), key=len))[0]))
            continue
        fam = fid.split(":")[0] if not fid.startswith("corpus:") else "corpus-" + re.search(r"bytecode_([^/]+)/", fid).group(1)
        minority = sorted(min(groups.values(), key=len))
        out.append(("hosts-disagree:%s:%s:odd=%s" % (fld, fam, "+".join(minority)),
                    "hosts disagree on %s of %s: %s" % (fld, fid, {k: sorted(v) for k, v in groups.items()}), {"fid": fid, "field": fld}, minority[0]))
    return out


def summarize(plan, counts, extras, results):
    by_host = {}
    for e in extras:
        by_host.setdefault(e["host"], {}).update(e["digests"])
    fids = set()
    for d in by_host.values():
        fids |= set(d)
    full = sum(1 for f in fids if sum(1 for h in by_host if f in by_host[h]) >= 2)
    return {"files_compared_across_hosts": full, "distinct_nontrivial": full, "evaluations": sum(len(d) for d in by_host.values()),
            "configurations": "6 hosts x {fast path where version = host, portable, native argument}"}
