# C15 - stack effects equal the interpreter's for every opcode and operand.
import sys

from vlib import common

ID = "C15"
LEVEL = "exploration"
TECHNIQUE = ("bounded exhaustive enumeration of (opcode, operand) pairs - every opcode of each reference table 3.6-3.13 x "
             "operands 0..258 and 2**k-1, 2**k, 2**k+1 for k=8..30 (thorough: all operands 0..65535 for operand-dependent "
             "opcodes) - through xstack_effect, make_std_api(v).stack_effect and xdis.std.stack_effect, against "
             "dis.stack_effect of the matching interpreter")
TEXT = ("Every pair of the bounded space is evaluated by the real xdis functions and compared with the value CPython's "
        "dis.stack_effect returns for that version (jump unspecified); pairs CPython rejects are outside the domain.")
NOTE = ("Trusted: dis.stack_effect of 3.6.15 .. 3.13.0. Versions before 3.6 (2.x, 3.0-3.5) have no executable reference in "
        "this sandbox and are not claimed; the repo's own pytest/stackeffect tables are test data, not an oracle.")
RULE = ("case = one opcode of one reference version with all its operands; distinct = distinct (version, opcode); each "
        "(opcode, operand) pair is one evaluation (coverage.counts.pairs)")
ASSUMPTIONS = ["reference = dis.stack_effect(op, arg) with jump=None"]
VERS = ["3.6", "3.7", "3.8", "3.9", "3.10", "3.11", "3.12", "3.13"]


def hosts(tier):
    return common.HOSTS


def bounds(tier):
    return {"operands": "0..258 + 2**k-1,2**k,2**k+1 (k=8..30)" + ("; 0..65535 where operand-dependent" if tier == "thorough" else ""), "versions": VERS}


def prepare(tier):
    return {"se": common.datasets("stackeffect", VERS, tier)}


def cases(plan, tier, shard, nshards, host):
    for v in VERS:
        if host != common.PRIMARY and v != host:
            continue  # other hosts: xdis.std.stack_effect for their own version
        for idx, rec in common.read_dataset(plan["se"][v], shard, nshards):
            if idx >= 0:
                yield rec


def case_key(c):
    return c["id"] + str(c["ver"])


def describe(c):
    return {"version": c["ver"], "opname": c["opname"], "reference_first_pairs": (c.get("pairs") or [[None, c.get("noarg")]])[:4]}


def canary_cases(plan, tier, host):
    for idx, rec in common.read_dataset(plan["se"]["3.9"]):
        if idx >= 0 and rec["opname"] == "BUILD_TUPLE":
            rec = dict(rec)
            rec["pairs"] = [[a, (e + 1 if e is not None else None)] for a, e in rec["pairs"]]
            yield rec
            break


def argclass(op, a):
    if a <= 3:
        return str(a)
    if a < 256:
        return "4..255"
    return ">=256"


def run_case(case, ctx):
    import xdis.std
    from xdis.cross_dis import xstack_effect
    from xdis.disasm import get_opcode
    from xdis.std import make_std_api

    ver = tuple(case["ver"])
    vtag = "%d.%d" % ver
    opc = get_opcode(ver, False)
    name = case["opname"]
    if name not in opc.opmap:
        ctx.count("opcode_missing_in_xdis_table")  # C09's business
        return
    op = opc.opmap[name]
    api = make_std_api(ver)
    funcs = [("xstack_effect", lambda a: xstack_effect(op, opc, a) if a is not None else xstack_effect(op, opc)),
             ("make_std_api.stack_effect", lambda a: api.stack_effect(op, a) if a is not None else api.stack_effect(op))]
    if ver == sys.version_info[:2]:
        funcs.append(("xdis.std.stack_effect", lambda a: xdis.std.stack_effect(op, a) if a is not None else xdis.std.stack_effect(op)))
    pairs = case.get("pairs") if case["takes_arg"] else [[None, case.get("noarg")]]
    for a, want in pairs:
        if want is None:
            ctx.count("rejected_by_reference")
            continue
        ctx.count("pairs")
        for fname, fn in funcs:
            try:
                got = fn(a)
            except Exception as e:
                ctx.violation("%s:%s:raises:%s:%s" % (vtag, name, type(e).__name__, fname), "%s(%s, %r) raised %r" % (fname, name, a, e))
                break
            if got != want:
                ctx.violation("%s:%s:%s" % (vtag, name, argclass(op, a) if a is not None else "noarg"),
                              "%s(%s, %r) = %r, dis.stack_effect = %r" % (fname, name, a, got, want))
                break


def summarize(plan, counts, extras, results):
    return {"evaluations": counts.get("pairs", 0), "distinct_nontrivial": counts.get("pairs", 0),
            "rejected_by_reference": counts.get("rejected_by_reference", 0),
            "note_on_counts": "evaluations = (version, opcode, operand) pairs accepted by dis.stack_effect, each through 2-3 xdis entry points"}
