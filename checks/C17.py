# C17 - 3.11+ exception and position tables decode as CPython decodes them.
from gen.canon import unhx
from vlib import common, xinst
from vlib.xcanon import walk_xcodes

ID = "C17"
LEVEL = "exploration"
TECHNIQUE = ("bounded exhaustive enumeration of 3.11-3.13 location tables (all 16 entry codes x lengths x varint sizes x signs, "
             "sequences <= 3) and exception tables (all 4-tuples over 7 boundary values = 1- to 4-byte varints, pairs), "
             "installed in real code objects by each CPython and decoded by xdis's parsers, compared with co_positions(), "
             "co_lines() and dis._parse_exception_table; plus all compiled G-programs for 3.11-3.13; plus every sequence "
             "(<= 3 quick, <= 4 thorough) over 3 observers and 7 mutators (replace of first line / location table / exception "
             "table, to_native and back, freeze) on a Code311 object, against the host's own code object taken through the "
             "same replacements, on hosts 3.11, 3.12, 3.13")
TEXT = ("Every table of the bounded space is carried by a genuine code object of 3.11, 3.12 and 3.13, read by xdis's "
        "unmarshaller into Code311, and parse_exception_table / Bytecode.exception_entries / the ExceptionTable: listing "
        "lines, co_lines() and co_positions() (expanded per code unit) must equal what that CPython reports.")
NOTE = ("Trusted: code.co_positions(), code.co_lines(), dis._parse_exception_table of 3.11.7, 3.12.1, 3.13.0. xdis's "
        "co_positions() is per table entry; it is expanded by the entry length before comparison (DESIGN C17).")
RULE = ("case = one location table, one exception table or one compiled program for one of 3.11/3.12/3.13; distinct = "
        "distinct (version, table bytes)")
ASSUMPTIONS = ["reference = the producing interpreter's own accessors on a code object carrying the same bytes"]
VERS = ["3.11", "3.12", "3.13"]


def bounds(tier):
    return {"operation_sequence_depth": 3 if tier == "quick" else 4, "location_sequence_len": 3, "exception_values": [0, 1, 63, 64, 4095, 4096, 2 ** 18], "exception_pairs_over": 3 if tier == "quick" else 4,
            "program_statements_k": 1 if tier == "quick" else 2}


def prepare(tier):
    k = 1 if tier == "quick" else 2
    return {"lt": common.datasets("linetables", VERS, tier), "exc": common.datasets("exctables", VERS, tier),
            "progs": common.datasets("progs", VERS, k)}


OPSEQ_PROGS = {
    "try_loop": "def f(a, b):\n    for i in a:\n        try:\n            b = b + i * (a[0] -\n                         i)\n        except (ValueError, KeyError) as e:\n            b = e\n        finally:\n            a = None\n    return b\n",
    "gen_with": "def g(cm, xs):\n    with cm as c:\n        for x in xs:\n            yield (x,\n                   c)\n    return [y for y in xs if y]\n",
    "gap": "def h(p):\n    q = p\n" + "\n" * 140 + "    return (q +\n\n\n            p)\n",
}
OBSERVERS = ["positions", "lines", "exc"]
MUTATORS = ["first+1000", "first=1", "table=alt", "table=orig", "exctable=empty", "to_native+back", "freeze"]


def hosts(tier):
    return ["3.12", "3.11", "3.13"]


def workers_for_host(tier, host):
    return 10 if host == "3.12" else 3


def _opseqs(tier):
    import itertools

    depth = 3 if tier == "quick" else 4
    alpha = OBSERVERS + MUTATORS
    for d in range(1, depth + 1):
        for seq in itertools.product(alpha, repeat=d):
            if seq[-1] in OBSERVERS:
                continue    # every sequence ends with a full observation anyway
            if not any(o in MUTATORS for o in seq):
                continue
            yield seq


def cases(plan, tier, shard, nshards, host):
    import sys

    # operation sequences on a Code311 object against the host's own code object (every 3.11+ host)
    n = 0
    for pid in sorted(OPSEQ_PROGS):
        for seq in _opseqs(tier):
            n += 1
            if n % nshards == shard:
                yield {"kind": "opseq", "ver": list(sys.version_info[:2]), "id": pid, "seq": list(seq)}
    if host != "3.12":
        return
    for v in VERS:
        for idx, rec in common.read_dataset(plan["lt"][v], shard, nshards):
            if idx >= 0:
                yield {"kind": "loc", "ver": rec["ver"], "table": rec["table"], "payload": rec["payload"], "tag": rec["tag"],
                       "colines": rec["colines"], "positions": rec["positions"], "firstlineno": rec["firstlineno"]}
        for idx, rec in common.read_dataset(plan["exc"][v], shard, nshards):
            if idx >= 0:
                yield {"kind": "exc", "ver": rec["ver"], "table": rec["table"], "payload": rec["payload"], "entries": rec["entries"], "raw": rec["raw"]}
        for idx, rec in common.read_dataset(plan["progs"][v], shard, nshards):
            if idx >= 0:
                yield {"kind": "prog", "ver": rec["ver"], "id": rec["id"], "pyc": rec["pyc"],
                       "codes": [{"name": c["name"], "colines": c["colines"], "positions": c["positions"], "exc": c["exc"]} for c in rec["codes"]]}


def case_key(c):
    if c["kind"] == "opseq":
        return "opseq:%s:%s:%s" % (c["ver"], c["id"], ">".join(c["seq"]))
    return "%s:%s:%s" % (c["kind"], c["ver"], c.get("table") or c.get("id")) + str(c.get("firstlineno", ""))


def describe(c):
    if c["kind"] == "opseq":
        return {"kind": "opseq", "host": c["ver"], "program": c["id"], "sequence": c["seq"]}
    if c["kind"] == "prog":
        return {"kind": "prog", "version": c["ver"], "program": c["id"]}
    d = {"kind": c["kind"], "version": c["ver"], "table_hex": c["table"][:60]}
    d["reference"] = (c.get("positions") or c.get("entries"))[:3]
    return d


def canary_cases(plan, tier, host):
    for idx, rec in common.read_dataset(plan["exc"]["3.12"]):
        if idx >= 0 and rec["entries"]:
            e = [list(x) for x in rec["entries"]]
            e[0][3] += 1
            yield {"kind": "exc", "ver": rec["ver"], "table": rec["table"], "payload": rec["payload"], "entries": e, "raw": rec["raw"]}
            break


def _entry_code(table_hex, k=0):
    bs = bytearray(unhx(table_hex))
    return "code%d" % ((bs[0] >> 3) & 15) if bs else "empty"


def _cmp_loc(ctx, vtag, cls, where, co, colines, positions):
    ctx.count("location_tables")
    def per_unit(ranges):
        # "the line of every code unit": 3.11 reports one range per table entry, 3.12+ merges equal neighbours
        out = {}
        for (a, b, line) in ranges:
            for u in range(a, b, 2):
                out[u] = line
        return sorted(out.items())

    try:
        got = per_unit([tuple(x) for x in co.co_lines()])
        want = per_unit([tuple(x) for x in colines])
        if got != want:
            k = next((i for i, (a, b) in enumerate(zip(got, want)) if a != b), min(len(got), len(want)))
            ctx.violation("%s:co_lines" % vtag, "line of code units from %d: xdis %s, CPython %s (%s)" % (k, got[k:k + 3], want[k:k + 3], where))
    except Exception as e:
        ctx.violation("%s:co_lines:raises:%s:%s" % (vtag, type(e).__name__, cls), "%r (%s)" % (e, where))
    try:
        got = []
        for ent in co.co_positions():
            n, rest = ent[0], tuple(ent[1:])
            got.extend([rest] * n)
        want = [tuple(x) for x in positions]
        if got != want:
            k = next((i for i, (a, b) in enumerate(zip(got, want)) if a != b), min(len(got), len(want)))
            field = "len"
            if k < len(got) and k < len(want):
                field = ["line", "endline", "col", "endcol"][next(j for j in range(4) if got[k][j] != want[k][j])]
            ctx.violation("%s:co_positions:%s" % (vtag, field), "unit %d: xdis %s, CPython %s (%s)"
                          % (k, got[k] if k < len(got) else None, want[k] if k < len(want) else None, where))
    except Exception as e:
        ctx.violation("%s:co_positions:raises:%s:%s" % (vtag, type(e).__name__, cls), "%r (%s)" % (e, where))


def _cmp_exc(ctx, vtag, where, co, opc, entries, small):
    from xdis.bytecode import Bytecode, parse_exception_table
    from xdis.cross_dis import format_exception_table

    ctx.count("exception_tables")
    want = [tuple(e) for e in entries]
    try:
        got = [(e.start, e.end, e.target, e.depth, bool(e.lasti)) for e in parse_exception_table(co.co_exceptiontable)]
    except Exception as e:
        ctx.violation("%s:parse_exception_table:raises:%s" % (vtag, type(e).__name__), "%r (%s)" % (e, where))
        return
    if got != want:
        ctx.violation("%s:parse_exception_table" % vtag, "entries %s, CPython %s (%s)" % (got[:3], want[:3], where))
    if not small:
        return
    try:
        bc = Bytecode(co, opc)
        got2 = [(e.start, e.end, e.target, e.depth, bool(e.lasti)) for e in (bc.exception_entries or [])]
        if got2 != want:
            ctx.violation("%s:Bytecode.exception_entries" % vtag, "entries %s, CPython %s (%s)" % (got2[:3], want[:3], where))
        txt = format_exception_table(bc, opc.version_tuple)
        lines = [ln.strip() for ln in txt.splitlines()[1:]]
        exp_lines = ["%d to %d -> %d [%d]%s" % (s, e - 2, t, d, " lasti" if la else "") for (s, e, t, d, la) in want]
        if lines != exp_lines:
            ctx.violation("%s:ExceptionTable-listing" % vtag, "listing %s, expected %s (%s)" % (lines[:3], exp_lines[:3], where))
    except Exception as e:
        ctx.violation("%s:Bytecode.exception_entries:raises:%s" % (vtag, type(e).__name__), "%r (%s)" % (e, where))


def _native_obs(co):
    import dis

    return {"colines": [list(x) for x in co.co_lines()], "positions": [list(x) for x in co.co_positions()],
            "exc": [[e.start, e.end, e.target, e.depth, bool(e.lasti)] for e in dis._parse_exception_table(co)]}


def _opseq(case, ctx):
    """explicit enumeration of operation sequences (observers and mutators) on a portable Code311 object; the reference
    model is the host's own immutable code object taken through the same replacements"""
    import sys
    import types

    from xdis.codetype import codeType2Portable

    host = tuple(sys.version_info[:2])
    vtag = "%d.%d" % host
    opc = xinst.opc_for(host)
    src = OPSEQ_PROGS[case["id"]]
    alt_src = src.replace("\n", "\n\n").replace(" = ", "  =   ")
    fn = [c for c in compile(src, "<opseq>", "exec").co_consts if isinstance(c, types.CodeType)][0]
    alt = [c for c in compile(alt_src, "<opseq>", "exec").co_consts if isinstance(c, types.CodeType)][0]
    if alt.co_code != fn.co_code:
        ctx.count("opseq_alt_table_unusable")
        alt = fn
    nat = fn
    p0 = codeType2Portable(fn)
    p = p0
    where0 = "%s after %%s" % case["id"]
    ctx.count("opseq_sequences")
    done = []
    for op in case["seq"]:
        done.append(op)
        where = where0 % ">".join(done)
        ctx.count("opseq_steps")
        try:
            if op == "positions":
                _cmp_loc(ctx, vtag, "opseq", where, p, [list(x) for x in nat.co_lines()], [list(x) for x in nat.co_positions()])
            elif op == "lines":
                list(p.co_lines())
            elif op == "exc":
                _cmp_exc(ctx, vtag, where, p, opc, _native_obs(nat)["exc"], True)
            elif op == "first+1000":
                p, nat = p.replace(co_firstlineno=p.co_firstlineno + 1000), nat.replace(co_firstlineno=nat.co_firstlineno + 1000)
            elif op == "first=1":
                p, nat = p.replace(co_firstlineno=1), nat.replace(co_firstlineno=1)
            elif op == "table=alt":
                p, nat = p.replace(co_linetable=alt.co_linetable), nat.replace(co_linetable=alt.co_linetable)
            elif op == "table=orig":
                p, nat = p.replace(co_linetable=fn.co_linetable), nat.replace(co_linetable=fn.co_linetable)
            elif op == "exctable=empty":
                p, nat = p.replace(co_exceptiontable=b""), nat.replace(co_exceptiontable=b"")
            elif op == "to_native+back":
                p = codeType2Portable(p.to_native())
            elif op == "freeze":
                p = p.freeze()
        except Exception as e:
            ctx.violation("%s:opseq:raises:%s:%s" % (vtag, type(e).__name__, op), "%r (%s)" % (e, where))
            return
    where = where0 % ">".join(done)
    ref = _native_obs(nat)
    _cmp_loc(ctx, vtag, "opseq", where, p, ref["colines"], ref["positions"])
    _cmp_exc(ctx, vtag, where, p, opc, ref["exc"], True)
    # the object the sequence started from still answers as the untouched native object does
    ref0 = _native_obs(fn)
    _cmp_loc(ctx, vtag, "opseq-original", where, p0, ref0["colines"], ref0["positions"])
    _cmp_exc(ctx, vtag, where + " (original)", p0, opc, ref0["exc"], True)


def run_case(case, ctx):
    if case["kind"] == "opseq":
        return _opseq(case, ctx)
    ver = tuple(case["ver"])
    vtag = "%d.%d" % ver
    opc = xinst.opc_for(ver)
    ctx.count("cases_%s_%s" % (case["kind"], vtag))
    if case["kind"] in ("loc", "exc"):
        try:
            co = xinst.load_payload(case["payload"], ver)
        except Exception as e:
            ctx.violation("%s:load-raises:%s" % (vtag, type(e).__name__), "%r (%s)" % (e, case["table"][:40]))
            return
        if case["kind"] == "loc":
            _cmp_loc(ctx, vtag, _entry_code(case["table"]), "table %s first line %d" % (case["table"], case["firstlineno"]), co,
                     case["colines"], case["positions"])
        else:
            small = all(x <= 4096 for e in case["raw"] for x in e)
            _cmp_exc(ctx, vtag, "table %s" % case["table"], co, opc, case["entries"], small)
        return
    try:
        # always the portable reader, so that Code311 is what is exercised (also when host == file version)
        co = xinst.load_payload(case["pyc"][2 * 16:], ver)
    except Exception as e:
        ctx.violation("%s:load-raises:%s" % (vtag, type(e).__name__), str(e)[:200])
        return
    for xc, rc in zip(walk_xcodes(co), case["codes"]):
        where = case["id"] + "/" + rc["name"]
        _cmp_loc(ctx, vtag, "prog", where, xc, rc["colines"], rc["positions"])
        _cmp_exc(ctx, vtag, where, xc, opc, rc["exc"], True)
