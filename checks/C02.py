# C02 - instruction stream decodes exactly as CPython's dis does for that version.
from gen.canon import unhx
from vlib import common, xinst

ID = "C02"
LEVEL = "exploration"
TECHNIQUE = ("bounded exhaustive enumeration of raw co_code (every defined opcode x boundary operands x EXTENDED_ARG "
             "chains, all instruction-class sequences of length <= 3) and of all compiled G-programs, decoded by the "
             "real xdis Bytecode iterator on several hosts and compared with each producing CPython's dis; "
             "model M-dis replayed against all nine interpreters, then used for tables without an interpreter")
TEXT = ("Every stream of the bounded space is decoded by xdis and by the dis module of the matching interpreter; offsets "
        "must tile co_code, and opcode, name and folded operand must agree at every offset. Covers every accumulator "
        "transition of EXTENDED_ARG in every position for sequences <= 3 and every opcode of the nine reference tables.")
NOTE = ("Trusted: dis._unpack_opargs/get_instructions of 3.6..3.13, text of dis.disassemble for 2.7 (cross-checked with "
        "M-dis in the oracle). INSTRUMENTED_*/ENTER_EXECUTOR opcodes excluded: they never occur in co_code of a file. "
        "Versions without an interpreter: M-dis fed with xdis's own table (tiling + folding only).")
RULE = ("case = one synthetic co_code stream (dataset rawcode, kinds stream/jump) or one compiled program (dataset progs) "
        "for one reference version, or one (table, stream) pair for M-dis; distinct = distinct (version, code bytes); "
        "non-trivial = accepted by the reference dis (rejected ones are counted in the oracle's meta record)")
ASSUMPTIONS = ["reference = dis of the producing interpreter on the same bytes",
               "CACHE pseudo-instructions of xdis are compared separately against _inline_cache_entries (DESIGN 3.2)"]


def hosts(tier):
    return ["3.12", "3.8", "3.13"] if tier == "quick" else common.HOSTS


def bounds(tier):
    return {"sequence_len": 3, "operands_single": [0, 1, 255], "operands_boundary": [0, 1, 255, 256, 65535, 65536, 2 ** 24 - 1, 2 ** 24, 2 ** 31 - 1],
            "program_statements_k": 1 if tier == "quick" else 2, "hosts": hosts(tier)}


def prepare(tier):
    k = 1 if tier == "quick" else 2
    return {"raw": common.datasets("rawcode", common.REFS), "progs": common.datasets("progs", common.REFS, k)}


MDIS_STREAM_VERSIONS = ["2.7", "3.6"]  # byte-code and word-code prototypes replayed on tables without interpreter


def cases(plan, tier, shard, nshards, host):
    for v in common.REFS:
        P = common.read_meta(plan["raw"][v])["P"]
        for idx, rec in common.read_dataset(plan["raw"][v], shard, nshards):
            if idx < 0 or rec["kind"] == "resolve":
                continue
            if rec["kind"] == "jump" and tier == "quick":
                continue  # D/E streams (jumps among fillers) are C04's space; thorough decodes them here too
            if not rec.get("accepted"):
                # outside the domain: CPython's own dis.get_instructions raises on this code object
                yield {"kind": "skip", "why": "rejected_by_reference_dis"}
                continue
            if table_index_out_of_range(rec["ops"], P, tuple(rec["ver"])):
                # not a code object: an operand indexes past co_consts / co_names / ... (CPython's dis may or may not
                # notice, e.g. 3.11 resolves LOAD_CONST only); nothing can emit or run it
                yield {"kind": "skip", "why": "table_index_out_of_range"}
                continue
            if ext_before_noarg(rec["ops"], P):
                # ill-formed (DESIGN 3.3 oracle sanity filter): a prefix with nothing to extend; dis of 3.6-3.9
                # carries it over the no-operand opcode while the interpreter applies it to that opcode
                yield {"kind": "skip", "why": "extended_arg_before_noarg_opcode"}
                continue
            yield {"kind": "raw", "ver": rec["ver"], "code": rec["code"], "ops": rec["ops"], "tag": rec["tag"], "P": P}
        if host != common.PRIMARY and tier == "quick":
            continue
        for idx, rec in common.read_dataset(plan["progs"][v], shard, nshards):
            if idx < 0:
                continue
            yield {"kind": "prog", "ver": rec["ver"], "id": rec["id"], "pyc": rec["pyc"], "P": P,
                   "codes": [{"name": c["name"], "len": c["len"], "ops": [[i[0], i[1], i[3], i[2]] for i in c["insts"]]} for c in rec["codes"]]}
    if host == common.PRIMARY:
        # the alternate_opmap route (disasm.get_opcode / disco / disassemble_file take one): the table is re-derived in place,
        # once per process, so each (version, map) runs in a forked child
        na = 0
        for v in common.REFS:
            for how in ("identity", "empty", "swap"):
                na += 1
                if na % nshards == shard:
                    yield {"kind": "altmap", "ver": list(common.vt(v)), "how": how, "path": plan["progs"][v]}
    if host == common.PRIMARY:
        # compiler-produced code of every version in the historical corpus (incl. 1.x, 2.0-2.6, 3.0-3.5, PyPy):
        # reference = M-dis (conformance-checked above against all nine interpreters) fed with the table xdis picks
        import glob
        import os

        m = 0
        for f in sorted(glob.glob(os.path.join(common.REPO, "test", "bytecode_*", "*.pyc"))):
            if "dropbox" in f or os.path.getsize(f) > (12000 if tier == "quick" else 200000):
                continue
            m += 1
            if m % nshards == shard:
                yield {"kind": "corpus", "path": os.path.relpath(f, common.REPO)}
    if host == common.PRIMARY:
        # tables without an interpreter: M-dis with xdis's own table parameters
        from xdis.op_imports import op_imports

        mods = {}
        for k, m in op_imports.items():
            mods.setdefault(m.__name__, k)
        names = sorted(mods)
        n = 0
        for name in names:
            for sv in MDIS_STREAM_VERSIONS:
                if n % nshards == shard:
                    yield {"kind": "mdis-table", "table": name, "streams_from": sv, "path": plan["raw"][sv]}
                n += 1


def table_index_out_of_range(ops, P, ver):
    lim = {"hasconst": 300, "hasname": 300, "haslocal": 256, "hasfree": 8 if ver < (3, 11) else 256,
           "hascompare": P["ncmp"] * (32 if ver >= (3, 13) else 16 if ver >= (3, 12) else 1)}
    for o, op, a in ops:
        if a is None:
            continue
        for cat, n in lim.items():
            # (a negative operand - 3.11+ reports operands of 2**31 and more as the signed int they are kept in - indexes
            # nothing either)
            if op in P[cat] and (a >= n or a < 0):
                return True
    return False


def ext_before_noarg(ops, P):
    for a, b in zip(ops, ops[1:]):
        if a[1] == P["ext"] and b[2] is None:
            return True
    return False


def case_key(c):
    if c["kind"] == "skip":
        return "skip"
    if c["kind"] == "corpus":
        return "corpus:" + c["path"]
    if c["kind"] == "raw":
        return "raw:%s:%s" % (c["ver"], c["code"])
    if c["kind"] == "prog":
        return "prog:%s:%s" % (c["ver"], c["id"])
    if c["kind"] == "altmap":
        return "altmap:%s:%s" % (c["ver"], c["how"])
    return "mdis:%s:%s" % (c["table"], c["streams_from"])


def describe(c):
    if c["kind"] in ("skip", "corpus", "altmap"):
        return c
    if c["kind"] == "raw":
        return {"kind": "raw", "version": c["ver"], "co_code": c["code"][:64], "tag": c["tag"], "reference_ops": c["ops"][:6]}
    if c["kind"] == "prog":
        return {"kind": "prog", "version": c["ver"], "program": c["id"], "code_objects": len(c["codes"])}
    return {"kind": c["kind"], "table": c["table"], "streams_from": c["streams_from"]}


def canary_cases(plan, tier, host):
    for idx, rec in common.read_dataset(plan["raw"]["3.9"], 0, 1):
        if idx >= 0 and rec["kind"] == "stream" and rec["tag"].startswith("B:") and rec["tag"].endswith(":65536"):
            ops = [list(o) for o in rec["ops"]]
            ops[-1][2] += 1
            yield {"kind": "raw", "ver": rec["ver"], "code": rec["code"], "ops": ops, "tag": rec["tag"],
                   "P": common.read_meta(plan["raw"]["3.9"])["P"]}
            break


def _opclass(name):
    return name


def compare_ops(ctx, vtag, where, insts, ref_ops, codelen, P, opname_of=None):
    """insts: xdis Instructions; ref_ops: [[offset, opcode, arg(, opname)]]"""
    err = xinst.tiling_error(insts, codelen, P)
    if err:
        bad = insts[0].opname if insts else "?"
        for i in insts:
            pass
        ctx.violation("%s:tiling:%s" % (vtag, where), err)
        return
    real, cerr = xinst.split_caches(insts, P)
    if cerr:
        ctx.violation("%s:cache-slots:%s" % (vtag, where), cerr)
    if len(real) != len(ref_ops):
        ctx.violation("%s:count:%s" % (vtag, where), "xdis yields %d non-cache instructions, dis %d" % (len(real), len(ref_ops)))
        return
    for i, r in zip(real, ref_ops):
        roff, rop, rarg = r[0], r[1], r[2]
        if i.offset != roff or i.opcode != rop:
            ctx.violation("%s:opcode:%s" % (vtag, i.opname), "at %d xdis has opcode %d@%d, dis %d@%d" % (roff, i.opcode, i.offset, rop, roff))
            return
        if len(r) > 3 and r[3] != i.opname:
            ctx.violation("%s:opname:%s" % (vtag, r[3]), "at %d xdis names opcode %d %r, dis %r" % (roff, rop, i.opname, r[3]))
        if rarg is not None and i.arg != rarg:
            ctx.violation("%s:operand:%s:%s" % (vtag, i.opname, _argclass(rarg)), "at %d xdis operand %r, dis %r" % (roff, i.arg, rarg))
        if rarg is None and i.arg is not None and i.arg != 0:
            # dis reports no operand; xdis may keep the raw byte only if it calls it an operand-taking opcode
            ctx.violation("%s:operand-on-noarg:%s" % (vtag, i.opname), "at %d xdis operand %r for an opcode dis gives no operand" % (roff, i.arg))


def _argclass(a):
    if a < 256:
        return "<2^8"
    if a < 65536:
        return "<2^16"
    if a < 2 ** 24:
        return "<2^24"
    return ">=2^24"


def run_altmap(case, ctx):
    """alternate_opmap: with the version's own map (or an empty one) the table must decode as before; with two operand-taking
    opcodes exchanged, code whose opcode bytes are exchanged the same way must decode to the original instructions"""
    import io
    import json
    import os

    r, w = os.pipe()
    pid = os.fork()
    if pid == 0:
        out = []
        try:
            os.close(r)
            from xdis.bytecode import get_instructions_bytes
            from xdis.disasm import get_opcode
            from xdis.load import load_module_from_file_object

            from vlib.xcanon import walk_xcodes

            ver = tuple(case["ver"])
            opc = get_opcode(ver, False)
            codes = []
            n = 0
            for idx, rec in common.read_dataset(case["path"]):
                if idx < 0 or not rec["id"].endswith("@module"):
                    continue
                n += 1
                if n > 60:
                    break
                co = load_module_from_file_object(io.BytesIO(unhx(rec["pyc"])))[3]
                for c in walk_xcodes(co):
                    codes.append((rec["id"] + "/" + c.co_name, c))
            ref = [[(i.offset, i.opname, i.arg) for i in get_instructions_bytes(c.co_code, opc)] for _, c in codes]
            amap, a, b = {}, None, None
            if case["how"] == "identity":
                amap = dict(opc.opmap)
            elif case["how"] == "swap":
                a, b = opc.opmap.get("LOAD_NAME"), opc.opmap.get("STORE_NAME")
                amap = {"LOAD_NAME": b, "STORE_NAME": a}
            opc2 = get_opcode(ver, False, alternate_opmap=amap)
            for (where, c), rf in zip(codes, ref):
                code = bytearray(c.co_code)
                if case["how"] == "swap":
                    for (off, name, arg) in rf:
                        if code[off] == a:
                            code[off] = b
                        elif code[off] == b:
                            code[off] = a
                got = [(i.offset, i.opname, i.arg) for i in get_instructions_bytes(bytes(code), opc2)]
                if got != rf:
                    k = next((j for j, (x, y) in enumerate(zip(got, rf)) if x != y), min(len(got), len(rf)))
                    out.append(["%d.%d:altmap:%s" % (ver[0], ver[1], case["how"]), "with alternate_opmap (%s) instruction %d is %r, was %r (%s)"
                                % (case["how"], k, got[k] if k < len(got) else None, rf[k] if k < len(rf) else None, where)])
                    break
            out.append(["__count__", len(codes)])
        except BaseException as e:  # noqa
            out.append(["%d.%d:altmap:%s:raises:%s" % (case["ver"][0], case["ver"][1], case["how"], type(e).__name__), repr(e)[:200]])
        try:
            os.write(w, json.dumps(out).encode())
        finally:
            os._exit(0)
    os.close(w)
    buf = b""
    while True:
        chunk = os.read(r, 65536)
        if not chunk:
            break
        buf += chunk
    os.close(r)
    os.waitpid(pid, 0)
    if not buf:
        ctx.violation("altmap:child-died", "no result from the child for %r" % (case["how"],))
        return
    for sig, msg in json.loads(buf.decode()):
        if sig == "__count__":
            ctx.count("altmap_code_objects", msg)
        else:
            ctx.violation(sig, msg)


def run_case(case, ctx):
    from xdis.bytecode import get_instructions_bytes

    if case["kind"] == "altmap":
        return run_altmap(case, ctx)

    if case["kind"] == "mdis-table":
        return run_mdis_table(case, ctx)
    if case["kind"] == "skip":
        ctx.count("excluded_" + case["why"])
        return
    if case["kind"] == "corpus":
        return run_corpus(case, ctx)
    ver = tuple(case["ver"])
    vtag = "%d.%d" % ver
    opc = xinst.opc_for(ver)
    P = case["P"]
    ctx.count("cases_%s_%s" % (case["kind"], vtag))
    if case["kind"] == "raw":
        code = unhx(case["code"])
        for api in (("Bytecode", "get_instructions_bytes") if case["tag"][0] in "AB" else ("Bytecode",)):
            try:
                if api == "Bytecode":
                    insts = xinst.xinsts(xinst.portable_with_code(ver, code), opc)
                else:
                    insts = list(get_instructions_bytes(code, opc))
            except Exception as e:
                first = case["tag"].split(":")[1] if ":" in case["tag"] else "?"
                ctx.violation("%s:raises:%s:%s" % (vtag, type(e).__name__, first if case["tag"][0] in "AB" else case["tag"][0]),
                              "%s raised %r on co_code %s (%s)" % (api, e, case["code"][:80], case["tag"]))
                return
            compare_ops(ctx, vtag, case["tag"][0], insts, case["ops"], len(code), P)
        return
    # compiled program
    try:
        _, co, _ = xinst.load_pyc(case["pyc"])
    except Exception as e:
        ctx.violation("%s:load-raises:%s" % (vtag, type(e).__name__), str(e)[:200])
        return
    from vlib.xcanon import walk_xcodes

    xs = walk_xcodes(co)
    if len(xs) != len(case["codes"]):
        ctx.violation("%s:code-count" % vtag, "%d code objects, expected %d" % (len(xs), len(case["codes"])))
        return
    for xc, rc in zip(xs, case["codes"]):
        ctx.count("code_objects")
        try:
            insts = xinst.xinsts(xc, opc)
        except Exception as e:
            ctx.violation("%s:raises:%s:prog" % (vtag, type(e).__name__), "Bytecode iteration raised %r in %s" % (e, case["id"]))
            continue
        compare_ops(ctx, vtag, "prog", insts, rc["ops"], rc["len"], P)


def run_corpus(case, ctx):
    import os
    import re

    from gen import mdis as M
    from vlib.xcanon import walk_xcodes
    from xdis.disasm import get_opcode
    from xdis.load import load_module

    try:
        res = load_module(os.path.join(common.REPO, case["path"]))
    except Exception:
        ctx.count("corpus_not_loadable")  # C06/C12 judge that
        return
    ver, co, pypy = tuple(res[0][:2]), res[3], res[4]
    fam = re.search(r"bytecode_([^/]+)/", case["path"]).group(1)
    if not hasattr(co, "co_code") or ver >= (3, 11):
        return  # 3.11+ (inline caches) are covered by the interpreter-backed cases
    opc = get_opcode(ver, pypy)
    P = {"wordcode": ver >= (3, 6), "have_arg": opc.HAVE_ARGUMENT, "ext": getattr(opc, "EXTENDED_ARG", None), "caches": {}}
    for c in walk_xcodes(co):
        ctx.count("corpus_code_objects")
        code = c.co_code
        try:
            insts = xinst.xinsts(c, opc)
            exp = M.mdis(code, P)
        except Exception as e:
            ctx.violation("corpus-%s:raises:%s" % (fam, type(e).__name__), "%r in %s/%s" % (e, case["path"], c.co_name))
            continue
        err = xinst.tiling_error(insts, len(code), P)
        if err:
            ctx.violation("corpus-%s:tiling" % fam, "%s in %s/%s" % (err, case["path"], c.co_name))
            continue
        got = [(i.offset, i.opcode, i.arg) for i in insts]
        want = [(o, op, a) for (o, op, a, nc) in exp]
        if got != want:
            k = next(i for i, (g, w) in enumerate(zip(got, want)) if g != w) if len(got) == len(want) else -1
            ctx.violation("corpus-%s:differs-from-M-dis" % fam, "at %s: xdis %s, M-dis %s in %s/%s" % (k, got[k] if k >= 0 else len(got), want[k] if k >= 0 else len(want), case["path"], c.co_name))
        for i in insts:
            if opc.opname[i.opcode] != i.opname or i.opname.startswith("<"):
                ctx.violation("corpus-%s:undefined-opcode" % fam, "opcode %d (%s) at %d in compiler-produced code %s/%s" % (i.opcode, i.opname, i.offset, case["path"], c.co_name))
                break


def run_mdis_table(case, ctx):
    """tables without interpreter: xdis's decoder must agree with M-dis parameterised by the same table"""
    import importlib

    from gen import mdis as M

    opc = importlib.import_module(case["table"])
    vt = tuple(opc.version_tuple[:2])
    if not hasattr(opc, "EXTENDED_ARG"):
        ctx.count("tables_without_extended_arg")
    P = {"wordcode": vt >= (3, 6), "have_arg": opc.HAVE_ARGUMENT, "ext": getattr(opc, "EXTENDED_ARG", None), "caches": {}}
    if vt >= (3, 11):
        return  # cache layout is version-specific: covered by the interpreter-backed cases only
    src_word = case["streams_from"] != "2.7"
    if src_word != P["wordcode"]:
        return
    n = 0
    for idx, rec in common.read_dataset(case["path"]):
        if idx < 0 or rec["kind"] != "stream" or rec["tag"][0] != "C":
            continue
        code = unhx(rec["code"])
        try:
            exp = M.mdis(code, P)
        except IndexError:
            continue  # truncated operand for this table's HAVE_ARGUMENT: not well-formed here
        if any(a[1] == P["ext"] and b[2] is None for a, b in zip(exp, exp[1:])):
            continue  # prefix before a no-operand opcode: ill-formed (see ext_before_noarg)
        ctx.count("mdis_table_streams")
        n += 1
        try:
            from xdis.bytecode import get_instructions_bytes

            insts = list(get_instructions_bytes(code, opc))
        except Exception as e:
            ctx.violation("%s:mdis-raises:%s" % (case["table"].split(".")[-1], type(e).__name__), "Bytecode raised %r on %s" % (e, rec["code"]))
            return
        err = xinst.tiling_error(insts, len(code), P)
        if err:
            ctx.violation("%s:mdis-tiling" % case["table"].split(".")[-1], err + " on " + rec["code"])
            return
        got = [(i.offset, i.opcode, i.arg) for i in insts]
        want = [(o, op, a) for (o, op, a, nc) in exp]
        if got != want:
            ctx.violation("%s:mdis-differs" % case["table"].split(".")[-1], "xdis %s vs M-dis %s on %s" % (got[:4], want[:4], rec["code"]))
            return
