# C10 - every marshal encoding of a constant decodes to the same value.
import io

from gen.canon import unhx
from models import m_magic
from vlib import common
from vlib.xcanon import tree_diff, xcanon

ID = "C10"
LEVEL = "exploration"
TECHNIQUE = ("deviation-bounded exhaustive enumeration of marshal streams: a value grammar (all atom kinds, containers of "
             "size 0/1/2/255/256/300, sharing patterns) in co_consts, written by each CPython's own marshal.dumps in every "
             "format version and by a stream assembler applying <= d alternative encodings per stream (d=1 quick, 2 "
             "thorough); each stream validated by the producing CPython's marshal.loads, whose result is the oracle")
TEXT = ("For every value of the grammar and every way the format permits to encode it within d deviations from the canonical "
        "encoding (type-code alternatives for ints, floats, complex, strings, tuples; FLAG_REF on any node with later 'r' "
        "back-references; py2 interning 't'/'R'), xdis.unmarshal.load_code must return co_consts equal in kind and value, "
        "at every reference site, to what the producing interpreter's marshal.loads returns for the very same bytes.")
NOTE = ("Trusted: marshal.loads of the nine interpreters (also as the well-formedness filter of assembled streams); canonical "
        "comparison of gen/canon.py; NaN through text float encodings compared as 'any NaN' (DESIGN 3.2). Versions without "
        "interpreter get the same streams re-headed to their magic (transplants), a derived oracle.")
RULE = ("case = one marshal stream of a code object whose co_consts holds one grammar value, for one (producing version, "
        "reading magic); distinct = distinct (reading magic, stream bytes); all were accepted by the reference reader")
ASSUMPTIONS = ["reference = marshal.loads of the producing interpreter on the same bytes",
               "bare top-level values are not compared: the property observes co_consts of a code object"]


def bounds(tier):
    return {"depth": 2 if tier == "quick" else 3, "deviations": "1 (+ FLAG_REF on the same node as an alternative type code)" if tier == "quick" else 2, "format_versions": "0-2 (2.7), 0-4 (3.x)",
            "container_sizes": [0, 1, 2, 255, 256, 300]}


def hosts(tier):
    return common.HOSTS


def prepare(tier):
    return {"consts": common.datasets("consts", common.REFS, tier)}


def targets_for(src, how):
    """magics a stream produced by interpreter `src` in encoding `how` may legitimately carry"""
    _, klass = m_magic.layout_class(src)
    if how.startswith("dumps-v"):
        mv = int(how[7:])
    else:
        mv = 2 if src < (3, 0) else (4 if src >= (3, 4) else 2)
        if src >= (3, 4) and how == "asm:":
            mv = 2  # canonical assembler output uses no 3.4+ feature
    out = []
    for tv in klass:
        if tv == src:
            continue
        if src == (3, 7) and tv < (3, 7):
            continue
        if src in ((3, 9), (3, 10), (3, 12), (3, 13)) and tv < src:
            continue
        need = 4 if tv >= (3, 4) else (2 if tv >= (2, 5) else (1 if tv >= (2, 4) else 0))
        # a stream may travel to a version whose reader understands its features
        if mv <= need and not (mv < 2 and tv >= (2, 5) and False):
            if mv < 2 and tv >= (3, 0):
                pass
            out.append(tv)
    return out


def cases(plan, tier, shard, nshards, host):
    for v in common.REFS:
        src = common.vt(v)
        for idx, rec in common.read_dataset(plan["consts"][v], shard, nshards):
            if idx < 0:
                continue
            yield {"ver": rec["ver"], "tver": rec["ver"], "id": rec["id"], "payload": rec["payload"], "tree": rec["tree"],
                   "textfloat": rec["textfloat"], "how": rec["how"]}
            for tv in targets_for(src, rec["how"]):
                tree = rec["tree"]
                if (tv >= (3, 10)) != (src >= (3, 10)):
                    from checks.C01 import rename_linetable

                    tree = rename_linetable(tree, "co_linetable" if tv >= (3, 10) else "co_lnotab")
                yield {"ver": rec["ver"], "tver": list(tv), "id": rec["id"], "payload": rec["payload"], "tree": tree,
                       "textfloat": rec["textfloat"], "how": rec["how"]}


def case_key(c):
    return "%s:%s" % (c["tver"], c["payload"])


def describe(c):
    return {"value_and_encoding": c["id"], "produced_by": c["ver"], "read_as": c["tver"], "stream_hex": c["payload"][:96]}


def canary_cases(plan, tier, host):
    import copy

    for idx, rec in common.read_dataset(plan["consts"]["3.9"]):
        if idx >= 0 and rec["id"].startswith("atom1|") is False and "share_sib:0|" in rec["id"]:
            t = copy.deepcopy(rec["tree"])
            t["v"]["co_consts"]["v"][0]["v"][1]["v"] = "5"
            yield {"ver": rec["ver"], "tver": rec["ver"], "id": rec["id"], "payload": rec["payload"], "tree": t,
                   "textfloat": False, "how": rec["how"]}
            break


def kindpath(diff):
    import re

    path, exp, got = diff
    ek = exp.split('"t": "')[1].split('"')[0] if isinstance(exp, str) and '"t": "' in exp else str(exp)[:16]
    gk = got.split('"t": "')[1].split('"')[0] if isinstance(got, str) and '"t": "' in got else str(got)[:16]
    return "%s->%s" % (ek, gk)


def vcat(valkind):
    for p in ("atom", "tuple", "list", "fset", "set", "dict", "share", "d2", "d3", "code", "shared_across_code"):
        if valkind.startswith(p):
            return p
    return valkind


def run_case(case, ctx):
    import xdis.unmarshal

    tver = tuple(case["tver"])
    vtag = "%d.%d" % tver
    ctx.count("streams_%s" % vtag)
    how = case["how"].split(":")[0] if case["how"].startswith("asm") else case["how"]
    enc = case["how"][4:].split(",")[0].split("=")[-1] if case["how"].startswith("asm:") and len(case["how"]) > 4 else how
    valkind = case["id"].split(":")[0].split("|")[0].rstrip("0123456789")
    data = unhx(case["payload"])
    try:
        co = xdis.unmarshal.load_code(io.BytesIO(data), m_magic.FINAL[tver])
    except Exception as e:
        ctx.violation("%s:raises:%s:%s" % (vtag, type(e).__name__, vcat(valkind)), "%r on %s" % (e, case["id"]))
        return
    if not hasattr(co, "co_consts"):
        ctx.violation("%s:no-code:%s" % (vtag, valkind), "load_code returned %r" % type(co))
        return
    want = case["tree"]["v"]["co_consts"]
    got = xcanon(co.co_consts, tver)
    d = tree_diff(want, got, nan_loose=case["textfloat"])
    if d:
        ctx.violation("%s:%s:%s" % (vtag, vcat(valkind), kindpath(d)), "co_consts differ at %s: expected %s got %s (%s)" % (d + (case["id"],)))
