# C12 - listings are total, faithful to the instruction stream, and clean.
import glob
import io
import os
import re
import sys

from gen.canon import unhx
from vlib import common

ID = "C12"
LEVEL = "exploration"
TECHNIQUE = ("bounded exhaustive enumeration of compiled G-programs for the nine reference versions plus the historical corpus, "
             "each disassembled by the real disassemble_file in all six formats with standard output captured at file-"
             "descriptor level; classic/bytes listings parsed and compared instruction by instruction with xdis's own "
             "Bytecode stream (differential, no hand-written expectation)")
TEXT = ("For every file of the bounded space and each of the six formats disassembly must return without raising, write "
        "nothing to fd 1 when given a separate stream (and exactly the listing when the stream is sys.stdout); every line "
        "of a classic/bytes listing must be a header comment, blank, an ExceptionTable line or an instruction line, and the "
        "instruction lines must be exactly the (non-CACHE for classic) instructions of Bytecode(co, opc, dup_lines=True) in "
        "queue order with matching offset, name, operand, '>>' mark and line number.")
NOTE = ("Trusted: the parser of the listing format in this check (regular expression over xdis's documented column layout). "
        "stderr is recorded, not judged. pydisasm as a process is exercised in the thorough tier for one file per version "
        "and format.")
RULE = ("(quick tier: programs whose pyc exceeds 3000 bytes get classic, bytes and extended only - xdis's iterator is "
        "quadratic; thorough runs all six on everything) case = one bytecode file (compiled program of grammar G for one reference version, or one corpus file) x six "
        "formats; distinct = distinct file bytes")
ASSUMPTIONS = ["the instruction stream the listing must be faithful to is xdis's own Bytecode(co, opc, dup_lines=True)",
               "line marks are judged independently of that stream: every line start reported by the producing CPython "
               "(M-lines for the corpus) must be marked, and a further mark must be a permitted dup_lines repeat (M-dup: the "
               "start of a compiler-recorded lnotab entry, never a position reached through a (255, 0) continuation entry)"]
FORMATS = ["classic", "bytes", "extended", "extended-bytes", "xasm", "header"]
LINE = re.compile(r"^\s*(?:(\d+):)?\s+(-->)?\s*(>>)?\s*(\d+) (?:\|([0-9a-f ]+)\| ?)?([A-Z_][A-Za-z0-9_+]*)[ ]*(.*)$")


def bounds(tier):
    return {"program_statements_k": 1 if tier == "quick" else 2, "formats": FORMATS, "corpus": "all .pyc under test/bytecode_* (<= 30 KB)"}


# every host lists the compiled programs of its own version (native path) in all six formats; cross-version listings on the
# other hosts are compared host against host in C07 (classic and extended, all six hosts); corpus and pydisasm run on the
# primary host
SECONDARY_KINDS = ("prog",)


def hosts(tier):
    return common.HOSTS


def workers_for_host(tier, host):
    return 10 if host == common.PRIMARY else {"3.8": 1, "3.9": 1}.get(host, 2)


def prepare(tier):
    k = 1 if tier == "quick" else 2
    return {"progs": common.datasets("progs", common.REFS, k), "tier": tier}


def cases(plan, tier, shard, nshards, host):
    for v in common.REFS:
        if host != common.PRIMARY and v != host:
            continue
        native_only_scopes = ("@module", "@function") if (host != common.PRIMARY and tier == "quick") else None
        for idx, rec in common.read_dataset(plan["progs"][v], shard, nshards):
            if idx >= 0:
                if native_only_scopes and not rec["id"].endswith(native_only_scopes):
                    continue
                if tier == "quick" and len(rec["pyc"]) > 4000 and not rec["id"].endswith("@module"):
                    continue  # long bodies: one scope in quick (xdis's iterator is quadratic), all four in thorough
                yield {"kind": "prog", "ver": rec["ver"], "id": rec["id"], "pyc": rec["pyc"],
                       "linestarts": [c["linestarts"] for c in rec["codes"]]}
    n = 0
    for f in sorted(glob.glob(os.path.join(common.REPO, "test", "bytecode_*", "*.pyc"))):
        if os.path.getsize(f) > (30000 if tier == "quick" else 200000):
            continue
        n += 1
        if n % nshards == shard:
            yield {"kind": "corpus", "path": os.path.relpath(f, common.REPO)}
    if tier == "thorough":
        m = 0
        for v in common.REFS:
            for fmt in FORMATS:
                m += 1
                if m % nshards == shard:
                    yield {"kind": "pydisasm", "ver": common.vt(v), "fmt": fmt, "path": plan["progs"][v]}


def case_key(c):
    return "%s:%s:%s" % (c["kind"], c.get("ver"), c.get("id") or c.get("path")) + str(c.get("fmt", ""))


def describe(c):
    return {k: v for k, v in c.items() if k != "pyc"}


def canary_cases(plan, tier, host):
    yield {"kind": "canary"}


_SCRATCH = []
_TIER = ["quick"]


def worker_init(plan, tier, host):
    _TIER[0] = tier
    import atexit
    import shutil
    import tempfile

    d = tempfile.mkdtemp(prefix="verif-c12-")
    _SCRATCH.append(d)
    atexit.register(lambda: shutil.rmtree(d, ignore_errors=True))


class FdCapture(object):
    """captures everything written to file descriptor 1 (and Python-level sys.stdout) during the block"""

    def __init__(self, path):
        self.path = path

    def __enter__(self):
        sys.stdout.flush()
        self.saved = os.dup(1)
        self.f = os.open(self.path, os.O_WRONLY | os.O_CREAT | os.O_TRUNC, 0o600)
        os.dup2(self.f, 1)
        self.old = sys.stdout
        sys.stdout = io.TextIOWrapper(os.fdopen(os.dup(1), "wb"), encoding="utf-8", errors="backslashreplace", write_through=True)
        return self

    def __exit__(self, *a):
        try:
            sys.stdout.flush()
            sys.stdout.close()
        except Exception:
            pass
        sys.stdout = self.old
        os.dup2(self.saved, 1)
        os.close(self.saved)
        os.close(self.f)
        with open(self.path, "rb") as f:
            self.data = f.read().decode("utf-8", "backslashreplace")


def expected_stream(co, opc, classic):
    """instructions in queue (BFS) order, as (offset, opname, operand-text, is_jump_target, starts_line)"""
    from collections import deque

    from xdis.bytecode import Bytecode
    from xdis.codetype.base import iscode

    out = []
    q = deque([co])
    while q:
        c = q.popleft()
        seg = []
        for i in Bytecode(c, opc, dup_lines=True):
            if classic and i.opname == "CACHE":
                continue
            seg.append(i)
        out.append(seg)
        for k in c.co_consts:
            if iscode(k):
                q.append(k)
    return out


_STREAM_CACHE = {}


def m_dup_positions(lnotab, firstlineno, signed):
    """M-dup: what the dup_lines extension (xdis's listing default) may mark beyond the real line starts in an lnotab
    table: the start of a compiler-recorded entry whose line equals the previous one (a second statement on one line).
    A position reached through a (255, 0) entry is the middle of one over-long step, not the start of an entry.
    -> {offset: line} of permitted extra marks"""
    bs = bytearray(lnotab if isinstance(lnotab, (bytes, bytearray)) else lnotab.encode("latin-1"))
    pos, line = 0, firstlineno
    ok = {0: True}
    line_at = {0: line}
    for k in range(0, len(bs) - 1, 2):
        b, d = bs[k], bs[k + 1]
        if signed and d >= 0x80:
            d -= 0x100
        if b:
            pos += b
            ok[pos] = not (b == 255 and d == 0)
        line += d
        line_at[pos] = line
    return dict((o, line_at[o]) for o in ok if ok[o])


def check_line_marks(ctx, vtag, fmt, marks, code, required, vt, where):
    """line number iff it starts a line: every real line start (the producing CPython's dis.findlinestarts, or M-lines
    for versions without an interpreter) is marked with its line, and any further mark is a permitted dup_lines extra"""
    marks = dict(marks)
    for off, line in required:
        if marks.get(off) != line:
            ctx.violation("%s:%s:line-start-not-marked" % (vtag, fmt), "offset %d starts line %r but the listing shows %r (%s)" % (off, line, marks.get(off), where))
            return
    req = dict((o, l) for o, l in required)
    extras = dict((o, l) for o, l in marks.items() if o not in req)
    if not extras:
        return
    allowed = {}
    if vt < (3, 10) and hasattr(code, "co_lnotab") and not isinstance(code.co_lnotab, dict):
        allowed = m_dup_positions(code.co_lnotab, code.co_firstlineno, vt >= (3, 6))
    for off, line in sorted(extras.items()):
        if allowed.get(off) != line:
            ctx.violation("%s:%s:line-mark-not-a-line-start" % (vtag, fmt), "offset %d carries line %r but starts no line (line starts %s, permitted repeats %s) (%s)"
                          % (off, line, [x for x in required if abs(x[0] - off) < 600][:4], sorted(allowed.items())[:6], where))
            return
    ctx.count("dup_line_marks_permitted", len(extras))


def check_listing(ctx, vtag, fmt, text, co, opc, where, refstarts=None):
    key = id(co)
    if _STREAM_CACHE.get("key") != key:
        _STREAM_CACHE.clear()
        _STREAM_CACHE["key"] = key
        _STREAM_CACHE["keep"] = co
        segs = expected_stream(co, opc, classic=False)
        _STREAM_CACHE["all"] = [i for s in segs for i in s]
        _STREAM_CACHE["seg_of"] = [k for k, s in enumerate(segs) for i in s]
    flat = [i for i in _STREAM_CACHE["all"] if not (fmt == "classic" and i.opname == "CACHE")]
    seg_of = [k for k, i in zip(_STREAM_CACHE["seg_of"], _STREAM_CACHE["all"]) if not (fmt == "classic" and i.opname == "CACHE")]
    got = []
    in_exc = False
    for ln in text.splitlines():
        if not ln.strip():
            in_exc = False
            continue
        if ln.startswith("#"):
            in_exc = False
            continue
        if ln.startswith("ExceptionTable:"):
            in_exc = True
            continue
        if in_exc and re.match(r"^  \d+ to \d+ -> \d+ \[\d+\]( lasti)?$", ln):
            continue
        m = LINE.match(ln)
        if not m:
            # continuation of a multi-line operand (docstrings are shown over several lines)
            if got and got[-1][6]:
                continue
            ctx.violation("%s:%s:stray-line" % (vtag, fmt), "unrecognised line %r (%s)" % (ln[:80], where))
            return
        got.append((int(m.group(4)), m.group(6), m.group(7), bool(m.group(3)), None if m.group(1) is None else int(m.group(1)), m.group(5), "\n" in ln or True))
    if len(got) != len(flat):
        ctx.violation("%s:%s:instruction-count" % (vtag, fmt), "listing has %d instruction lines, stream %d (%s)" % (len(got), len(flat), where))
        return
    for g, i in zip(got, flat):
        if g[0] != i.offset or g[1] != i.opname:
            ctx.violation("%s:%s:offset-or-name" % (vtag, fmt), "line %d %s vs instruction %d %s (%s)" % (g[0], g[1], i.offset, i.opname, where))
            return
        if g[3] != bool(i.is_jump_target):
            ctx.violation("%s:%s:jump-mark" % (vtag, fmt), "'>>' %r at %d but is_jump_target %r (%s)" % (g[3], i.offset, i.is_jump_target, where))
            return
        # before 2.3 the listing takes line numbers from SET_LINENO instructions (shown on the instruction that
        # follows), not from the line table the stream uses: a presentation choice, compared from 2.3 on only
        if tuple(opc.version_tuple[:2]) >= (2, 3) and g[4] != i.starts_line:
            ctx.violation("%s:%s:line-number" % (vtag, fmt), "line column %r at %d but starts_line %r (%s)" % (g[4], i.offset, i.starts_line, where))
            return
        if i.arg is not None:
            exp = ("(%s)" % i.argrepr) if i.argrepr else repr(i.arg)
            first = exp.split("\n")[0].rstrip()
            if g[2].rstrip() != first:
                ctx.violation("%s:%s:operand:%s" % (vtag, fmt, i.opname), "operand text %r, expected %r at %d (%s)" % (g[2][:60], first[:60], i.offset, where))
                return
        elif g[2].strip():
            ctx.violation("%s:%s:operand-on-noarg:%s" % (vtag, fmt, i.opname), "text %r after %s at %d (%s)" % (g[2][:40], i.opname, i.offset, where))
            return
    ctx.count("instruction_lines_checked", len(flat))
    # independent of xdis's own starts_line: the marks against the real line starts
    vt = tuple(opc.version_tuple[:2])
    if vt >= (2, 3):
        from collections import deque

        from xdis.codetype.base import iscode

        order = []
        q = deque([co])
        while q:
            c = q.popleft()
            order.append(c)
            for k in c.co_consts:
                if iscode(k):
                    q.append(k)
        per = {}
        offsets = {}
        for g, k in zip(got, seg_of):
            offsets.setdefault(k, set()).add(g[0])
            if g[4] is not None:
                per.setdefault(k, []).append((g[0], g[4]))
        for k, c in enumerate(order):
            req = required_starts(c, vt, refstarts)
            if req is None:
                ctx.count("line_marks_without_reference")
                continue
            # 3.6/3.7 tables may carry an entry at the very end of the code (eliminated dead code): no instruction, no mark;
            # 3.13's findlinestarts also reports where the line becomes None
            req = [(o, l) for (o, l) in req if o in offsets.get(k, ()) and l is not None]
            ctx.count("line_mark_tables_checked")
            check_line_marks(ctx, vtag, fmt, per.get(k, []), c, req, vt, "%s/%s" % (where, c.co_name))


def required_starts(c, vt, refstarts):
    """real line starts of one code object: from the producing interpreter when there is one (keyed by identity of the
    xdis code object, filled in run_case), else M-lines (gen/mdis.py; conformance with the interpreters is C05's)"""
    from gen import mdis

    if refstarts is not None:
        r = refstarts.get(id(c))
        return None if r is None else [tuple(x) for x in r]
    if vt >= (3, 10) or isinstance(getattr(c, "co_lnotab", None), dict) or not hasattr(c, "co_lnotab"):
        return None
    tab = c.co_lnotab
    if isinstance(tab, str):
        tab = tab.encode("latin-1")
    return mdis.mlines_lnotab(tab, c.co_firstlineno, len(c.co_code), vt >= (3, 6), vt in ((3, 8), (3, 9)))


def run_case(case, ctx):
    from xdis.disasm import disassemble_file, get_opcode
    from xdis.load import load_module

    if case["kind"] == "canary":
        # the listing comparator must notice a missing instruction line
        class Fake(object):
            def violation(self, *a, **k):
                ctx.violation("canary-detected", "comparator flagged a doctored listing")

            def count(self, *a, **k):
                pass

        p = sorted(glob.glob(os.path.join(common.REPO, "test", "bytecode_3.8", "*.pyc")), key=os.path.getsize)[0]
        out = io.StringIO()
        r = disassemble_file(p, outstream=out, asm_format="classic")
        lines = out.getvalue().splitlines()
        k = max(i for i, ln in enumerate(lines) if LINE.match(ln) and not ln.startswith("#"))
        del lines[k]
        check_listing(Fake(), "canary", "classic", "\n".join(lines), r[1], get_opcode(r[2][:2], False), "canary")
        return
    if case["kind"] == "pydisasm":
        return run_pydisasm(case, ctx)
    scratch = _SCRATCH[0]
    if case["kind"] == "prog":
        path = os.path.join(scratch, "m.pyc")
        with open(path, "wb") as f:
            f.write(unhx(case["pyc"]))
        vtag = "%d.%d" % tuple(case["ver"])
        where = case["id"]
    else:
        path = os.path.join(common.REPO, case["path"])
        m = re.search(r"bytecode_([^/]+)/", case["path"])
        vtag = "corpus-" + m.group(1)
        where = case["path"]
        if "dropbox" in vtag:
            vtag = "corpus-2.5dropbox"
    cap = os.path.join(scratch, "fd1.txt")
    ctx.count("files_%s" % vtag)
    listings = {}
    heavy = case["kind"] == "prog" and len(case["pyc"]) > 6000 and _TIER[0] == "quick"
    if heavy:
        ctx.count("heavy_files_three_formats_only")
    for fmt in (FORMATS if not heavy else ["classic", "bytes", "extended"]):
        out = io.StringIO()
        try:
            with FdCapture(cap) as c:
                res = disassemble_file(path, outstream=out, asm_format=fmt)
        except Exception as e:
            import traceback

            tb = traceback.extract_tb(e.__traceback__)
            fr = [f for f in tb if "/xdis/" in f.filename]
            wh = "%s:%s" % (os.path.basename(fr[-1].filename), fr[-1].name) if fr else "?"
            ctx.violation("%s:%s:raises:%s:%s" % (vtag, fmt, type(e).__name__, wh), "%r (%s)" % (e, where))
            continue
        ctx.count("listings")
        if c.data:
            ctx.violation("%s:%s:stdout-not-empty" % (vtag, fmt), "stdout got %r while listing went to a separate stream (%s)" % (c.data[:80], where))
        listings[fmt] = (out.getvalue(), res)
    # listing to sys.stdout: stdout == listing
    if "classic" in listings and not heavy:
        try:
            with FdCapture(cap) as c:
                disassemble_file(path, outstream=sys.stdout, asm_format="classic")
            a = re.sub(r"0x[0-9a-f]{6,}", "0xADDR", c.data)
            b = re.sub(r"0x[0-9a-f]{6,}", "0xADDR", listings["classic"][0])
            if a != b:
                ctx.violation("%s:stdout-listing-differs" % vtag, "listing via sys.stdout differs from listing via stream (%s)" % where)
        except Exception as e:
            ctx.violation("%s:classic-to-stdout:raises:%s" % (vtag, type(e).__name__), "%r (%s)" % (e, where))
    # outstream=None means "standard output" (disco: out or sys.stdout): every format must then print the same listing there
    if not heavy and os.path.getsize(path) <= 2500 and (case["kind"] != "prog" or case["id"].endswith("@module") or _TIER[0] != "quick"):
        for fmt in FORMATS:
            if fmt not in listings or fmt == "classic":
                continue
            ctx.count("outstream_none_routes")
            try:
                with FdCapture(cap) as c:
                    disassemble_file(path, None, fmt)
                a = re.sub(r"0x[0-9a-f]{6,}", "0xADDR", c.data)
                b = re.sub(r"0x[0-9a-f]{6,}", "0xADDR", listings[fmt][0])
                if a != b:
                    ctx.violation("%s:%s:outstream-none-differs" % (vtag, fmt), "listing printed for outstream=None differs from the listing written to a stream (%s)" % where)
            except Exception as e:
                ctx.violation("%s:%s:outstream-none:raises:%s" % (vtag, fmt, type(e).__name__), "%r (%s)" % (e, where))
    for fmt in ("classic", "bytes"):
        if fmt not in listings:
            continue
        text, res = listings[fmt]
        (_, co, version_tuple, ts, magic_int, is_pypy, size, sip) = res
        try:
            opc = get_opcode(version_tuple, is_pypy)
            refstarts = None
            if case["kind"] == "prog":
                from vlib.xcanon import walk_xcodes

                xs = walk_xcodes(co)
                refstarts = dict((id(x), ls) for x, ls in zip(xs, case["linestarts"])) if len(xs) == len(case["linestarts"]) else {}
            check_listing(ctx, vtag, fmt, text, co, opc, where, refstarts)
        except Exception as e:
            ctx.violation("%s:%s:stream-raises:%s" % (vtag, fmt, type(e).__name__), "%r (%s)" % (e, where))
    if "header" in listings:
        text, res = listings["header"]
        (_, co, version_tuple, ts, magic_int, is_pypy, size, sip) = res
        exp = []
        if ts is not None:
            exp.append("# Timestamp in code: %d" % ts)
        if size is not None:
            exp.append("# Source code size mod 2**32: %d bytes" % size)
        if sip is not None:
            exp.append("# SipHash:           0x%x" % sip)
        lines = text.splitlines()
        body = [ln for ln in lines if ln.startswith("# Timestamp") or ln.startswith("# Source code size") or ln.startswith("# SipHash")]
        body = [re.sub(r" \(\d{4}-\d\d-\d\d \d\d:\d\d:\d\d\)$", "", ln) for ln in body]
        if body != exp:
            ctx.violation("%s:header:fields" % vtag, "header shows %r, load_module fields give %r (%s)" % (body, exp, where))
        if not any(("bytecode %s" % ".".join(str(x) for x in version_tuple)) in ln and "(%d)" % magic_int in ln for ln in lines[:3]):
            ctx.violation("%s:header:version-line" % vtag, "no version/magic line in %r (%s)" % (lines[:3], where))
        if not all(ln.startswith("#") or not ln.strip() for ln in lines):
            ctx.violation("%s:header:stray-line" % vtag, "non-comment line in header listing (%s)" % where)


def run_pydisasm(case, ctx):
    """thorough: the console entry point as a process"""
    import subprocess
    import tempfile

    d = tempfile.mkdtemp(prefix="verif-c12p-")
    try:
        rec = None
        for idx, r in common.read_dataset(case["path"]):
            if idx >= 0 and r["id"] == "ex_try@function":
                rec = r
                break
        p = os.path.join(d, "m.pyc")
        with open(p, "wb") as f:
            f.write(unhx(rec["pyc"]))
        env = common.base_env()
        pr = subprocess.run(["/venv/bin/python", "-m", "xdis.bin.pydisasm", "-F", case["fmt"], p], env=env, stdout=subprocess.PIPE,
                            stderr=subprocess.PIPE, cwd=d)
        vtag = "%d.%d" % tuple(case["ver"])
        if pr.returncode != 0:
            ctx.violation("%s:pydisasm:%s:exit-status" % (vtag, case["fmt"]), "exit %d stderr %r" % (pr.returncode, pr.stderr[-200:]))
            return
        from xdis.disasm import disassemble_file

        out = io.StringIO()
        disassemble_file(p, outstream=out, asm_format=case["fmt"])
        norm = lambda s: re.sub(r"0x[0-9a-f]{6,}", "0xADDR", "\n".join(l for l in s.splitlines() if not l.startswith("# Disassembled from") and not re.match(r"^# (\[GCC|\d+\.\d+)", l)))  # noqa
        if norm(pr.stdout.decode("utf-8", "replace")) != norm(out.getvalue()):
            ctx.violation("%s:pydisasm:%s:stdout-differs" % (vtag, case["fmt"]), "pydisasm stdout differs from disassemble_file listing")
        ctx.count("pydisasm_runs")
    finally:
        import shutil

        shutil.rmtree(d, ignore_errors=True)
