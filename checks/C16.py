# C16 - native and portable code objects convert back and forth without loss.
import sys
import types

from vlib import common

ID = "C16"
LEVEL = "exploration"
TECHNIQUE = ("bounded exhaustive enumeration on each of the six hosts: every code object (recursively) of every G-program "
             "compiled by the host itself, through codeType2Portable / to_native / replace / freeze; attribute-by-attribute "
             "comparison with the original native object, and a breadth-first search over replace/freeze sequences <= 2 deep "
             "with a deep snapshot of the original taken before")
TEXT = ("Each native code object of the bounded program space is converted to the portable type and back on every host; "
        "all co_* attributes (incl. the raw line table, the exception table, the qualified name and the derived co_lines() "
        "and co_positions()) must equal the original's, the portable class must be the one for the host's version, and "
        "every replace() over every field must change exactly that field of a copy while the original is untouched. "
        "Besides the compiled programs, native objects carrying boundary values in each field (counts 255/256/300, "
        "stack sizes and first lines around 2**15/2**16/2**31, every flag bit, empty/long/non-ASCII names, 0..300 names "
        "and constants, long code and line tables) go through the same conversions: one field at a time in the quick "
        "tier, every pair of fields in the thorough tier.")
NOTE = ("Trusted: the host's own code-object attribute access and equality. Only hosts 3.8-3.13 (those able to import the "
        "package); programs outside grammar G are not covered.")
RULE = ("case = one program compiled on one host; every nested code object is converted and every field replaced; distinct "
        "= distinct (host, program); code objects are counted in coverage.counts.code_objects")
ASSUMPTIONS = ["reference = the native code object itself"]
ATTRS = ["co_argcount", "co_posonlyargcount", "co_kwonlyargcount", "co_nlocals", "co_stacksize", "co_flags", "co_code", "co_consts",
         "co_names", "co_varnames", "co_freevars", "co_cellvars", "co_filename", "co_name", "co_qualname", "co_firstlineno",
         "co_lnotab", "co_linetable", "co_exceptiontable"]


def hosts(tier):
    return common.HOSTS


def bounds(tier):
    return {"program_statements_k": 1 if tier == "quick" else 2, "replace_sequences": 2,
            "field_boundary_deviations": 1 if tier == "quick" else 2}


def prepare(tier):
    return {"tier": tier}


def cases(plan, tier, shard, nshards, host):
    from gen import programs as G

    k = 1 if tier == "quick" else 2
    n = 0
    for pid, src in G.enumerate_programs(sys.version_info[:2], k):
        n += 1
        if n % nshards == shard:
            yield {"id": pid, "src": src}
    # boundary values of every field, one at a time (quick) and in pairs (thorough), on a native object of this host
    menu = field_menu()
    specs = [[(f, i)] for f in sorted(menu) for i in range(len(menu[f]))]
    if tier != "quick":
        fl = sorted(menu)
        specs += [[(f1, i), (f2, j)] for a, f1 in enumerate(fl) for f2 in fl[a + 1:] for i in range(len(menu[f1])) for j in range(len(menu[f2]))]
    for sp in specs:
        n += 1
        if n % nshards == shard:
            yield {"id": "fields:" + ",".join("%s#%d" % fi for fi in sp), "spec": sp}


def _base_code():
    ns = {}
    exec(compile("def base(a, b=1, *c, **d):\n    e = a + b\n    return e, c, d, len\n", "<fields>", "exec"), ns)
    return ns["base"].__code__


def field_menu():
    """boundary values per field (beyond what a compiler emits for the small programs of G).  Argument counts come with
    matching co_varnames so that the host accepts the object."""
    host = sys.version_info[:2]
    names = lambda n: tuple("v%d" % i for i in range(n))
    m = {
        "args": [{"co_argcount": a, "co_kwonlyargcount": k, "co_varnames": names(a + k + 2), "co_nlocals": a + k + 2}
                 for a, k in ((0, 0), (1, 0), (255, 0), (256, 0), (300, 0), (0, 255), (0, 256), (128, 128), (255, 1), (254, 1), (200, 200))],
        "co_stacksize": [{"co_stacksize": v} for v in (0, 1, 255, 256, 32767, 32768, 65535, 65536, 2 ** 20)],
        "co_firstlineno": [{"co_firstlineno": v} for v in (0, 1, 127, 128, 255, 256, 32767, 32768, 65535, 65536, 2 ** 31 - 1)],
        "co_flags": [{"co_flags": 1 << b} for b in range(0, 30)] + [{"co_flags": 0}, {"co_flags": 0x3FFFFFFF}],
        "co_name": [{"co_name": v} for v in ("", "x" * 300, "\xe9", "\u20ac\U0001F600", "a b", "<lambda>")],
        "co_filename": [{"co_filename": v} for v in ("", "d/" * 200 + "f.py", "\xe9.py", "\U0001F600.py")],
        "co_names": [{"co_names": names(n)} for n in (0, 1, 255, 256, 300)],
        "co_consts": [{"co_consts": tuple(range(n))} for n in (0, 1, 255, 256, 300)],
        "co_code": [{"co_code": bytes(bytearray([9, 0] * n))} for n in (1, 127, 128, 255, 256, 40000)],
        "co_freevars": [{"co_freevars": names(n), "co_cellvars": ()} for n in (1, 255, 256)] + [{"co_cellvars": names(n)} for n in (1, 255, 256)],
    }
    if host >= (3, 8):
        m["args"] += [{"co_argcount": a, "co_posonlyargcount": p_, "co_kwonlyargcount": 0, "co_varnames": names(a + 2), "co_nlocals": a + 2}
                      for a, p_ in ((1, 1), (255, 255), (256, 256), (300, 1), (300, 300))]
    if host >= (3, 11):
        m["co_qualname"] = [{"co_qualname": v} for v in ("", "A." * 150 + "f", "\xe9.<locals>.f")]
        m["co_exceptiontable"] = [{"co_exceptiontable": v} for v in (b"", b"\x80\x01\x02\x03", b"\xc1\x00\x82\x04\x05" * 60)]
        m["co_linetable"] = [{"co_linetable": v} for v in (b"", b"\x80\x00", b"\xf0\x03\x01" * 100)]
    elif host >= (3, 10):
        m["co_linetable"] = [{"co_linetable": v} for v in (b"", b"\x02\x01", b"\x00\x7f\x00\x7f\x02\x01", b"\xfe\x00" * 50 + b"\x02\x81")]
    else:
        m["co_lnotab"] = [{"co_lnotab": v} for v in (b"", b"\x02\x01", b"\x00\x7f\x00\x7f\x02\x01", b"\xff\x00" * 50 + b"\x02\x81")]
    return m


def case_key(c):
    return c["id"]


def describe(c):
    return {"program": c["id"], "host": list(sys.version_info[:2]), "spec": c.get("spec")}


def canary_cases(plan, tier, host):
    yield {"id": "canary", "src": "def f(a, b=1):\n    return [a for _ in range(b)]\n"}


class _Holder(object):
    """a single synthetic code object (its constants are plain values)"""

    def __init__(self, co):
        self.co = co


def walk(co):
    if isinstance(co, _Holder):
        return [co.co]
    out = [co]
    for c in co.co_consts:
        if isinstance(c, types.CodeType):
            out.extend(walk(c))
    return out


def snapshot(p):
    import copy

    return {k: copy.deepcopy(v) for k, v in vars(p).items()}


def attr_equal(a, b, name):
    if name == "co_consts":
        if len(a) != len(b):
            return False
        for x, y in zip(a, b):
            if isinstance(x, types.CodeType) or isinstance(y, types.CodeType):
                if x is not y and x != y:
                    return False
            else:
                # kind-and-value equality on the canonical tree (repr() of a set depends on iteration order, which a
                # deep copy may change: comparing reprs raised a false alarm once G gained string-set constants)
                from gen.canon import canon

                if canon(x) != canon(y):
                    return False
        return True
    return type(a) is type(b) and a == b


def run_case(case, ctx):
    import warnings

    from xdis.codetype import codeType2Portable, portableCodeType
    from xdis.codetype.code38 import Code38
    from xdis.codetype.code310 import Code310
    from xdis.codetype.code311 import Code311

    warnings.simplefilter("ignore")
    host = sys.version_info[:2]
    htag = "%d.%d" % host
    if "spec" in case:
        menu = field_menu()
        kw = {}
        for f, i in case["spec"]:
            kw.update(menu[f][i])
        try:
            top = _base_code().replace(**kw)
        except (ValueError, OverflowError, SystemError, TypeError, MemoryError) as e:
            ctx.count("rejected_by_host_code_constructor")
            return
        ctx.count("field_boundary_objects")
        case = dict(case, src=None)
        top = _Holder(top)
    else:
        try:
            top = compile(case["src"], "<%s>" % case["id"], "exec")
        except (SyntaxError, ValueError):
            ctx.count("rejected_by_host_compiler")
            return
    want_cls = Code38 if host < (3, 10) else (Code310 if host == (3, 10) else Code311)
    canary = case["id"] == "canary"
    for co in walk(top):
        ctx.count("code_objects")
        where = "%s/%s" % (case["id"], co.co_name)
        try:
            p = codeType2Portable(co)
        except Exception as e:
            ctx.violation("%s:codeType2Portable:raises:%s" % (htag, type(e).__name__), "%r (%s)" % (e, where))
            continue
        # the same conversion with the version spelled out, in every form callers have at hand (pair, triple, 5-tuple slice)
        for vform in (tuple(sys.version_info[:2]), tuple(sys.version_info[:3])):
            ctx.count("explicit_version_forms")
            try:
                p2 = codeType2Portable(co, vform)
                n2 = p2.to_native()
                if type(p2) is not want_cls or portableCodeType(vform) is not want_cls:
                    ctx.violation("%s:portable-type:explicit-version" % htag, "codeType2Portable(co, %r) gives %s, portableCodeType(%r) %s, host needs %s (%s)"
                                  % (vform, type(p2).__name__, vform, portableCodeType(vform).__name__, want_cls.__name__, where))
                elif n2 != co and not canary:
                    ctx.violation("%s:roundtrip:explicit-version" % htag, "codeType2Portable(co, %r).to_native() != original (%s)" % (vform, where))
            except Exception as e:
                ctx.violation("%s:explicit-version:raises:%s" % (htag, type(e).__name__), "%r with version %r (%s)" % (e, vform, where))
        if type(p) is not want_cls or portableCodeType() is not want_cls:
            ctx.violation("%s:portable-type" % htag, "got %s / %s, host needs %s (%s)" % (type(p).__name__, portableCodeType().__name__, want_cls.__name__, where))
        # portable carries the same values
        for a in ATTRS:
            if not hasattr(co, a):
                continue
            if a == "co_lnotab" and host >= (3, 10):
                continue  # derived, deprecated attribute on the native side; the real table is co_linetable
            if not hasattr(p, a):
                ctx.violation("%s:portable-missing:%s" % (htag, a), "portable object lacks %s (%s)" % (a, where))
                continue
            if not attr_equal(getattr(co, a), getattr(p, a), a):
                ctx.violation("%s:portable-field:%s" % (htag, a), "portable.%s = %r, native %r (%s)" % (a, getattr(p, a), getattr(co, a), where))
        before = snapshot(p)
        try:
            n = p.to_native()
        except Exception as e:
            ctx.violation("%s:to_native:raises:%s" % (htag, type(e).__name__), "%r (%s)" % (e, where))
            n = None
        if n is not None:
            if canary:
                n = n.replace(co_stacksize=n.co_stacksize + 1)
            for a in ATTRS:
                if hasattr(co, a):
                    if a == "co_lnotab" and host >= (3, 10):
                        continue
                    if not attr_equal(getattr(co, a), getattr(n, a), a):
                        ctx.violation("%s:roundtrip:%s" % (htag, a), "to_native().%s = %r, original %r (%s)" % (a, getattr(n, a), getattr(co, a), where))
            if host >= (3, 10) and list(n.co_lines()) != list(co.co_lines()):
                ctx.violation("%s:roundtrip:co_lines" % htag, "co_lines() differ after the round trip (%s)" % where)
            if host >= (3, 11) and list(n.co_positions()) != list(co.co_positions()):
                ctx.violation("%s:roundtrip:co_positions" % htag, "co_positions() differ after the round trip (%s)" % where)
            if n != co and not canary:
                ctx.violation("%s:roundtrip:eq" % htag, "to_native() != original (%s)" % where)
        if snapshot(p) != before and repr(snapshot(p)) != repr(before):
            ctx.violation("%s:to_native-mutates-portable" % htag, "to_native() changed the portable object (%s)" % where)
        # replace(): BFS over single and double replacements / freeze
        newvals = {"co_argcount": 7, "co_posonlyargcount": 1, "co_kwonlyargcount": 2, "co_nlocals": 9, "co_stacksize": 77, "co_flags": 3,
                   "co_code": b"\x09\x00", "co_consts": (1, 2), "co_names": ("zz",), "co_varnames": ("vv",), "co_freevars": ("ff",),
                   "co_cellvars": ("cc",), "co_filename": "other.py", "co_name": "renamed", "co_qualname": "q.renamed", "co_firstlineno": 4242,
                   "co_lnotab": b"\x02\x01", "co_linetable": b"\x02\x01", "co_exceptiontable": b"\x80\x01\x02\x03"}
        fields = [a for a in ATTRS if hasattr(p, a)]
        for f1 in fields:
            ctx.count("replace_ops")
            try:
                q = p.replace(**{f1: newvals[f1]})
            except Exception as e:
                ctx.violation("%s:replace:raises:%s:%s" % (htag, type(e).__name__, f1), "%r (%s)" % (e, where))
                continue
            if q is p:
                ctx.violation("%s:replace:returns-self" % htag, "replace(%s) returned the original object (%s)" % (f1, where))
            if repr(snapshot(p)) != repr(before):
                ctx.violation("%s:replace:mutates-original:%s" % (htag, f1), "replace(%s=...) altered the original (%s)" % (f1, where))
                p = codeType2Portable(co)
                before = snapshot(p)
            for a in fields:
                want = newvals[f1] if a == f1 else getattr(p, a)
                if not attr_equal(want, getattr(q, a), a) and not (a == "co_consts" and a != f1 and getattr(q, a) == want):
                    ctx.violation("%s:replace:field:%s" % (htag, "same" if a == f1 else "other"), "after replace(%s): %s = %r, expected %r (%s)"
                                  % (f1, a, getattr(q, a), want, where))
            # depth 2: replace again / freeze on the copy must not touch the first copy's other fields nor the original
            f2 = fields[(fields.index(f1) + 3) % len(fields)]
            try:
                r = q.replace(**{f2: newvals[f2]})
                r2 = q.replace(**{f1: newvals[f1]}).freeze()
            except Exception as e:
                ctx.violation("%s:replace2:raises:%s" % (htag, type(e).__name__), "%r (%s)" % (e, where))
                continue
            for a in fields:
                want = newvals[f2] if a == f2 else (newvals[f1] if a == f1 else getattr(p, a))
                if not attr_equal(want, getattr(r, a), a) and not (a == "co_consts" and getattr(r, a) == want):
                    ctx.violation("%s:replace2:field" % htag, "after replace(%s).replace(%s): %s = %r, expected %r (%s)" % (f1, f2, a, getattr(r, a), want, where))
            if repr(snapshot(p)) != repr(before):
                ctx.violation("%s:replace2:mutates-original" % htag, "replace/freeze chain altered the original (%s)" % where)
                p = codeType2Portable(co)
                before = snapshot(p)
