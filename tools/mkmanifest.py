#!/usr/bin/env python3
"""Regenerate MANIFEST.json from the check modules (checks/Cxx.py)."""
import json
import os
import sys

HERE = os.path.dirname(os.path.dirname(os.path.abspath(__file__)))
sys.path.insert(0, HERE)
PY = "/root/.pyenv/versions/3.12.1/bin/python"

props = [json.loads(l)["id"] for l in open(os.path.join(HERE, "properties.jsonl"))]
checks, na = [], []
for pid in props:
    path = os.path.join(HERE, "checks", pid + ".py")
    if not os.path.exists(path):
        na.append({"property_id": pid, "reason": "check not built yet in this snapshot of /verif (planned: DESIGN.md section 4 %s); nothing is claimed for it" % pid})
        continue
    mod = __import__("checks." + pid, fromlist=["ID"])
    checks.append({
        "property_id": pid,
        "quick_cmd": "%s run_check.py %s --tier quick" % (PY, pid),
        "thorough_cmd": "%s run_check.py %s --tier thorough" % (PY, pid),
        "evidence_file": "/verif/evidence/%s.json" % pid,
        "replay_cmd_template": "%s run_check.py %s --replay {path}" % (PY, pid),
        "engine": getattr(mod, "ENGINE", "bounded-exhaustive explorer (vlib/common.py) + oracle farm (oracle/ref_main.py)"),
        "level_claimed": {"category": mod.LEVEL, "text": mod.TEXT, "design_ref": "DESIGN.md section 4 " + pid},
        "level_note": mod.NOTE,
        "technique": mod.TECHNIQUE,
    })
man = {
    "version": 1,
    "setup_cmd": "%s tools/setup.py" % PY,
    "hooks": {
        "guard": "XDIS_VERIF",
        "enable": "no source hooks: all observation is through public functions, audit hooks and introspection; checks import xdis from $VERIF_REPO (default /repo) working tree",
        "baseline_off_cmd": "cd /repo && /venv/bin/python -m pytest -ra -q -p no:cacheprovider --timeout=900 --continue-on-collection-errors",
        "source_commits": [],
        "add_only": True,
    },
    "engines": [
        {"name": "explorer", "path": "vlib/common.py", "serves_properties": [c["property_id"] for c in checks],
         "kind_free_text": "sharded bounded-exhaustive enumerator running the real xdis code on every element of a finite space; stateless exploration against executable reference models (real CPython interpreters)"},
        {"name": "oracle-farm", "path": "oracle/ref_main.py", "serves_properties": [c["property_id"] for c in checks],
         "kind_free_text": "ground truth produced by the nine installed CPython interpreters on the same enumerated inputs"},
    ],
    "checks": checks,
    "not_applicable": na,
    "notes": "Known genuine defects: known_findings.json. Design: DESIGN.md. Mutants: seeded/.",
}
json.dump(man, open(os.path.join(HERE, "MANIFEST.json"), "w"), indent=1)
print("checks:", [c["property_id"] for c in checks], "n/a:", len(na))
