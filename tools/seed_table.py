#!/usr/bin/env python3
"""print the markdown detection table (DESIGN section 9) from seeded/*/meta.json"""
import glob, json, os
root = os.path.join(os.path.dirname(os.path.dirname(os.path.abspath(__file__))), "seeded")
rows = []
for d in sorted(glob.glob(os.path.join(root, "*"))):
    m = json.load(open(os.path.join(d, "meta.json")))
    rows.append((os.path.basename(d), m))
print("| Seeded change | Breaks | Needs, in order to manifest | Caught by | Not caught by | Note |")
print("|---|---|---|---|---|---|")
for name, m in rows:
    print("| `%s` | %s | %s | %s | %s | %s |" % (name, m["breaks_property"], m["needs_to_manifest"].replace("|", "/"), ", ".join(m["caught_by"]) or "-",
                                            ", ".join(m["missed_by"]) or "-", (m.get("note") or "").replace("|", "/")))
print()
print("%d seeded changes; every one is caught by at least one check: %s" % (len(rows), all(m["caught_by"] for _, m in rows)))
