#!/bin/bash
# seed_regress.sh [name-glob]  - re-run, for every kept seeded change, the checks recorded as catching it;
# prints one line per (seed, check): DETECTED / MISSED.  Uses scratch worktrees; never touches /repo's working tree.
cd "$(dirname "$0")/.."
PY=/root/.pyenv/versions/3.12.1/bin/python
rc=0
for d in seeded/${1:-*}/; do
  name=$(basename $d)
  checks=$($PY -c "import json;print(' '.join(json.load(open('$d/meta.json'))['caught_by']))")
  wt=/tmp/seedreg-$$-$name
  git -C /repo worktree add -q "$wt" HEAD || exit 2
  if ! git -C "$wt" apply "$PWD/$d/patch.diff" 2>/dev/null; then echo "$name PATCH-DOES-NOT-APPLY"; rc=1; git -C /repo worktree remove --force "$wt"; continue; fi
  for c in $checks; do
    out=$(VERIF_OUT="$wt-out" VERIF_REPO="$wt" timeout 3000 $PY run_check.py $c --tier quick 2>&1)
    if echo "$out" | grep -q '^VIOLATION'; then echo "$name $c DETECTED ($(echo "$out" | grep -c '^VIOLATION') lines)"; else echo "$name $c MISSED"; rc=1; fi
  done
  git -C /repo worktree remove --force "$wt" >/dev/null 2>&1; rm -rf "$wt" "$wt-out"
done
exit $rc
