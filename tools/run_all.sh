#!/bin/bash
# run every check's quick (or $1) tier in sequence; summary at the end
tier=${1:-quick}
cd "$(dirname "$0")/.."
fail=0
for c in ${CHECKS:-C01 C02 C03 C04 C05 C06 C07 C08 C09 C10 C11 C12 C13 C14 C15 C16 C17 C18 C19 C20}; do
  s=$(date +%s)
  out=$(/root/.pyenv/versions/3.12.1/bin/python run_check.py $c --tier $tier 2>&1)
  rc=$?
  e=$(date +%s)
  echo "$c rc=$rc $((e-s))s $(echo "$out" | grep -c '^VIOLATION') violations $(echo "$out" | grep -c '^KNOWN-FINDING') known | $(echo "$out" | tail -1 | cut -c1-120)"
  if [ $rc -ne 0 ]; then fail=1; echo "$out" | grep '^VIOLATION' | head -5 | cut -c1-300; fi
done
exit $fail
