#!/usr/bin/env python3
"""setup_cmd: pre-build the quick-tier ground-truth datasets (oracle farm) so
that the first quick run of every check is fast.  Offline; needs only the
interpreters under /root/.pyenv/versions."""
import os
import sys
import time

HERE = os.path.dirname(os.path.dirname(os.path.abspath(__file__)))
sys.path.insert(0, HERE)
from vlib import common  # noqa: E402

t0 = time.time()
n = 0
for name in sorted(os.listdir(os.path.join(HERE, "checks"))):
    if not (name.startswith("C") and name.endswith(".py")):
        continue
    mod = __import__("checks." + name[:-3], fromlist=["prepare"])
    try:
        mod.prepare("quick")
        n += 1
    except Exception as e:
        print("setup: prepare failed for %s: %r" % (name, e))
        sys.exit(1)
print("setup ok: %d checks prepared in %.1fs; cache at %s" % (n, time.time() - t0, common.CACHE))
