#!/usr/bin/env python3
"""baseline.py [tree]  - run the repository's own suite in `tree` (default /repo) and check that every test of
BASELINE.json's stable_pass list still passes.  Exit 0 iff all 39 pass."""
import json
import os
import subprocess
import sys
import tempfile
import xml.etree.ElementTree as ET

tree = os.path.abspath(sys.argv[1]) if len(sys.argv) > 1 else "/repo"
want = json.load(open("/root/.vp/BASELINE.json"))["stable_pass"]
fd, xml = tempfile.mkstemp(suffix=".xml", prefix="verif-baseline-")
os.close(fd)
try:
    env = dict(os.environ)
    env.pop("PYTHONPATH", None)
    subprocess.run(["/venv/bin/python", "-m", "pytest", "-ra", "-q", "-p", "no:cacheprovider", "--timeout=900",
                    "--continue-on-collection-errors", "--junitxml=" + xml], cwd=tree, env=env,
                   stdout=subprocess.DEVNULL, stderr=subprocess.DEVNULL)
    passed = set()
    for tc in ET.parse(xml).getroot().iter("testcase"):
        if not any(ch.tag in ("failure", "error", "skipped") for ch in tc):
            passed.add("%s::%s" % (tc.get("classname"), tc.get("name")))
finally:
    os.unlink(xml)
missing = [w for w in want if w not in passed]
print("baseline in %s: %d of %d stable tests pass" % (tree, len(want) - len(missing), len(want)))
for m in missing:
    print("  NOT PASSING:", m)
sys.exit(1 if missing else 0)
