#!/bin/bash
# seed_eval.sh <dir with patch.diff and demo.py> <check ids...>
# Applies the change to a scratch worktree of /repo (never to /repo itself), confirms the baseline suite and the
# demonstration, runs the named checks against the changed tree (VERIF_REPO) and reports which of them raise a VIOLATION.
set -u
d=$(realpath "$1"); shift
wt=/tmp/seedeval-$$
PY=/root/.pyenv/versions/3.12.1/bin/python
demo_py=$PY
[ -f "$d/INTERP" ] && demo_py=$(cat "$d/INTERP")
git -C /repo worktree add -q "$wt" HEAD || exit 2
trap 'git -C /repo worktree remove --force "$wt" >/dev/null 2>&1; rm -rf "$wt" "$wt-out"' EXIT
echo "== demo on original tree"; (cd "$d" && PYTHONPATH=/repo $demo_py demo.py >/dev/null 2>&1); echo "   exit=$?"
if ! git -C "$wt" apply "$d/patch.diff"; then echo "PATCH DOES NOT APPLY"; exit 3; fi
echo "== baseline with the change"; $PY /verif/tools/baseline.py "$wt" | head -5
echo "== demo on changed tree"; (cd "$d" && PYTHONPATH="$wt" $demo_py demo.py >/dev/null 2>&1); echo "   exit=$?"
for c in "$@"; do
  echo "== check $c (quick) on changed tree"
  out=$(cd /verif && VERIF_OUT="$wt-out" VERIF_REPO="$wt" $PY run_check.py $c --tier ${TIER:-quick} 2>&1)
  echo "   exit=$? violations=$(echo "$out" | grep -c '^VIOLATION')"
  echo "$out" | grep '^VIOLATION' | head -4 | cut -c1-260
done
