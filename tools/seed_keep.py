#!/usr/bin/env python3
"""seed_keep.py <name> <srcdir> <property> <needs> <caught-by,comma> <missed-by,comma> [note]
copies patch.diff, demo.py (+NOTES.md) to seeded/<name>/ and writes meta.json"""
import json, os, shutil, sys
name, src, prop, needs, caught, missed = sys.argv[1:7]
note = sys.argv[7] if len(sys.argv) > 7 else ""
d = os.path.join(os.path.dirname(os.path.dirname(os.path.abspath(__file__))), "seeded", name)
os.makedirs(d, exist_ok=True)
for f in ("patch.diff", "demo.py", "NOTES.md", "INTERP"):
    if os.path.exists(os.path.join(src, f)):
        shutil.copy(os.path.join(src, f), os.path.join(d, f))
meta = {"breaks_property": prop, "needs_to_manifest": needs, "origin": "independent sub-agent given only the property text and a scratch worktree",
        "confirmed": ["baseline: tools/baseline.py on a scratch worktree with the patch: 39 of 39 stable tests pass",
                      "demo.py exits 0 on the original tree and non-zero on the patched tree",
                      "checks run with VERIF_REPO=<patched scratch worktree> (tools/seed_eval.sh)"],
        "caught_by": [c for c in caught.split(",") if c], "missed_by": [c for c in missed.split(",") if c], "note": note}
json.dump(meta, open(os.path.join(d, "meta.json"), "w"), indent=1)
print("kept", d)
