#!/usr/bin/env python3
"""run_check.py <id> [--tier quick|thorough] [--replay <path>]
exit 0 = property held on everything explored (known findings are printed as
KNOWN-FINDING lines); exit 1 = VIOLATION line(s) printed."""
import argparse
import os
import sys

HERE = os.path.dirname(os.path.abspath(__file__))
sys.path.insert(0, HERE)

from vlib import common  # noqa: E402


def main():
    ap = argparse.ArgumentParser()
    ap.add_argument("check")
    ap.add_argument("--tier", default=os.environ.get("VERIF_TIER") or "quick", choices=["quick", "thorough"])
    ap.add_argument("--replay")
    a = ap.parse_args()
    sys.path.insert(0, common.REPO)
    mod = __import__("checks." + a.check, fromlist=["ID"])
    return common.run_check(mod, a.tier, a.replay)


if __name__ == "__main__":
    sys.exit(main())
