# M-marshal: a small, independent reference reader for the marshal format of every
# bytecode version (DESIGN 3.5).  It returns the canonical tree of gen/canon.py directly.
# Bound to reality by replaying it on the whole C01/C10 space against the nine real
# interpreters (conformance count in C01's evidence); then used as the reference for the
# corpus files of versions that have no interpreter (1.0-2.6, 3.0-3.5, PyPy).
# It contains no failure behaviour: malformed input raises whatever it raises.
import json
import struct

from gen.canon import code_fields, f2hex, hx, istr


class Reader(object):
    def __init__(self, data, ver):
        self.d = data
        self.p = 0
        self.ver = tuple(ver[:2])
        self.py2 = self.ver < (3, 0)
        self.refs = []
        self.strs = []
        self.open = []

    def take(self, n):
        b = self.d[self.p:self.p + n]
        if len(b) != n:
            raise EOFError("marshal data too short")
        self.p += n
        return b

    def i32(self):
        return struct.unpack("<i", self.take(4))[0]

    def i16(self):
        return struct.unpack("<h", self.take(2))[0]

    def u8(self):
        return struct.unpack("B", self.take(1))[0]

    def text(self, raw):
        return {"t": "text", "v": [ord(c) for c in raw.decode("utf-8", "surrogatepass")]}

    def bytestr(self, raw):
        return {"t": "str2" if self.py2 else "bytes", "v": hx(raw)}

    def obj(self):
        b = self.u8()
        flag = bool(b & 0x80)
        c = chr(b & 0x7F)
        slot = None

        def reg(v):
            if flag:
                self.refs.append(v)
            return v

        def reserve():
            if flag:
                self.refs.append(None)
                return len(self.refs) - 1
            return None

        def fill(i, v):
            if i is not None:
                self.refs[i] = v
            return v

        if c == "0":
            return NULL
        if c == "N":
            return {"t": "none"}
        if c == "T":
            return {"t": "bool", "v": True}
        if c == "F":
            return {"t": "bool", "v": False}
        if c == ".":
            return {"t": "ellipsis"}
        if c == "S":
            return {"t": "stopiter"}
        if c == "i":
            return reg({"t": "int", "v": istr(self.i32())})
        if c == "I":
            return reg({"t": "int", "v": istr(struct.unpack("<q", self.take(8))[0])})
        if c == "l":
            n = self.i32()
            v = 0
            for j in range(abs(n)):
                v += struct.unpack("<H", self.take(2))[0] << (15 * j)
            if n < 0:
                v = -v
            return reg({"t": "long2" if self.py2 else "int", "v": istr(v)})
        if c == "f":
            return reg({"t": "float", "v": f2hex(float(self.take(self.u8()).decode("ascii")))})
        if c == "g":
            return reg({"t": "float", "v": f2hex(struct.unpack("<d", self.take(8))[0])})
        if c == "x":
            re_ = float(self.take(self.u8()).decode("ascii"))
            im = float(self.take(self.u8()).decode("ascii"))
            return reg({"t": "complex", "v": [f2hex(re_), f2hex(im)]})
        if c == "y":
            re_, im = struct.unpack("<dd", self.take(16))
            return reg({"t": "complex", "v": [f2hex(re_), f2hex(im)]})
        if c == "s":
            return reg(self.bytestr(self.take(self.i32())))
        if c == "t":
            raw = self.take(self.i32())
            v = self.bytestr(raw) if self.py2 else self.text(raw)
            self.strs.append(v)
            return reg(v)
        if c == "R":
            return self.strs[self.i32()]
        if c == "u":
            return reg(self.text(self.take(self.i32())))
        if c in "aA":
            return reg(self.text(self.take(self.i32())))
        if c in "zZ":
            return reg(self.text(self.take(self.u8())))
        if c in "()":
            i = reserve()
            n = self.u8() if c == ")" else self.i32()
            return fill(i, {"t": "tuple", "v": [self.obj() for _ in range(n)]})
        if c == "[":
            # a list is registered before its items are read (marshal.c does that for the mutable containers), so an
            # item may refer back to it: such a reference is written as the distance up the path of open containers
            node = {"t": "list", "v": []}
            if flag:
                self.refs.append(node)
            n = self.i32()
            self.open.append(node)
            try:
                for _ in range(n):
                    node["v"].append(self.obj())
            finally:
                self.open.pop()
            return node
        if c in "<>":
            i = reserve()
            n = self.i32()
            items = [self.obj() for _ in range(n)]
            items.sort(key=lambda d: json.dumps(d, sort_keys=True))
            return fill(i, {"t": "set" if c == "<" else "frozenset", "v": items})
        if c == "{":
            node = {"t": "dict", "v": []}
            if flag:
                self.refs.append(node)
            self.open.append(node)
            try:
                while True:
                    k = self.obj()
                    if k is NULL:
                        break
                    v = self.obj()
                    node["v"].append([k, v])
            finally:
                self.open.pop()
            node["v"].sort(key=lambda kv: json.dumps(kv[0], sort_keys=True))
            return node
        if c == "r":
            # may be a container that is still open: the node itself is returned, loads() renders back-references
            return self.refs[self.i32()]
        if c in "cC":
            i = reserve()
            return fill(i, self.code())
        raise ValueError("unknown type code %r at %d" % (c, self.p - 1))

    def code(self):
        v = self.ver
        d = {}
        wide = v >= (2, 3)
        num = self.i32 if wide else self.i16
        if v >= (1, 3):
            d["co_argcount"] = {"t": "int", "v": str(num())}
        if v >= (3, 8):
            d["co_posonlyargcount"] = {"t": "int", "v": str(self.i32())}
        if v >= (3, 0):
            d["co_kwonlyargcount"] = {"t": "int", "v": str(self.i32())}
        if (1, 3) <= v < (3, 11):
            d["co_nlocals"] = {"t": "int", "v": str(num())}
        if v >= (1, 5):
            d["co_stacksize"] = {"t": "int", "v": str(num())}
        if v >= (1, 3):
            d["co_flags"] = {"t": "int", "v": str(num())}
        d["co_code"] = self.obj()
        d["co_consts"] = self.obj()
        d["co_names"] = self.obj()
        if v >= (3, 11):
            names = self.obj()
            kinds = bytes(bytearray.fromhex(self.obj()["v"]))
            var, cell, free = [], [], []
            for nm, k in zip(names["v"], bytearray(kinds)):
                if k & 0x20:
                    var.append(nm)
                    if k & 0x40:
                        cell.append(nm)
                elif k & 0x40:
                    cell.append(nm)
                elif k & 0x80:
                    free.append(nm)
            d["co_varnames"] = {"t": "tuple", "v": var}
            d["co_cellvars"] = {"t": "tuple", "v": cell}
            d["co_freevars"] = {"t": "tuple", "v": free}
            d["co_nlocals"] = {"t": "int", "v": str(len(var))}
        else:
            if v >= (1, 3):
                d["co_varnames"] = self.obj()
            if v >= (2, 1):
                d["co_freevars"] = self.obj()
                d["co_cellvars"] = self.obj()
        d["co_filename"] = self.obj()
        d["co_name"] = self.obj()
        if v >= (3, 11):
            d["co_qualname"] = self.obj()
        if v >= (1, 5):
            d["co_firstlineno"] = {"t": "int", "v": str(num())}
            d["co_linetable" if v >= (3, 10) else "co_lnotab"] = self.obj()
        if v >= (3, 11):
            d["co_exceptiontable"] = self.obj()
        return {"t": "code", "v": d}


class _Null(object):
    pass


NULL = _Null()


def loads(data, ver):
    """(canonical tree, bytes consumed)"""
    r = Reader(data, ver)
    t = r.obj()
    return _render(t, []), r.p


def _render(node, path):
    """the node graph as a tree: a list or dict met again while it is being walked becomes {"t": "cycle", "v": distance
    up the path of open lists/dicts} - the same convention as gen.canon.canon"""
    if not isinstance(node, dict):
        return node
    t = node.get("t")
    if t in ("list", "dict"):
        for k, open_node in enumerate(path):
            if open_node is node:
                return {"t": "cycle", "v": len(path) - k}
        path.append(node)
        try:
            if t == "list":
                return {"t": "list", "v": [_render(e, path) for e in node["v"]]}
            return {"t": "dict", "v": [[_render(k, path), _render(v, path)] for k, v in node["v"]]}
        finally:
            path.pop()
    if t in ("tuple", "set", "frozenset"):
        return {"t": t, "v": [_render(e, path) for e in node["v"]]}
    if t == "code":
        return {"t": "code", "v": dict((f, _render(v, path)) for f, v in node["v"].items())}
    return node


def comparable(tree, ver):
    """restrict a model tree to the fields a code object of that version carries in xdis's vocabulary
    (gen.canon.code_fields) - the model already emits exactly those"""
    return tree


# ---------------------------------------------------------------------------------------------------------------------
# writer for the old layouts (1.5 - 2.2): the counterpart of Reader.code() above, used to re-lay-out the payload of a
# Python 2.7 program in the field widths of an older version (no interpreter exists for those; the *reader* half of this
# model is validated on the real 1.5 / 1.6 / 2.1 / 2.2 files of the corpus, and the writer against the reader on every case)
def _unhex_float(h):
    return struct.unpack("<d", struct.pack("<Q", int(h, 16)))[0]


def dump_tree(t, ver):
    """canonical tree of a Python 2 object -> marshal bytes in the layout of version `ver` (format version 0: text floats,
    no interning)"""
    ver = tuple(ver[:2])
    k = t["t"]
    if k == "none":
        return b"N"
    if k == "ellipsis":
        return b"."
    if k == "stopiter":
        return b"S"
    if k == "int":
        v = int(t["v"], 0)
        if -2 ** 31 <= v < 2 ** 31:
            return b"i" + struct.pack("<i", v)
        return b"I" + struct.pack("<q", v)
    if k == "long2":
        v = int(t["v"], 0)
        a, digits = abs(v), []
        while a:
            digits.append(a & 0x7FFF)
            a >>= 15
        return b"l" + struct.pack("<i", -len(digits) if v < 0 else len(digits)) + b"".join(struct.pack("<H", d) for d in digits)
    if k == "float":
        r = repr(_unhex_float(t["v"])).encode("ascii")
        return b"f" + bytes(bytearray([len(r)])) + r
    if k == "complex":
        out = b"x"
        for h in t["v"]:
            r = repr(_unhex_float(h)).encode("ascii")
            out += bytes(bytearray([len(r)])) + r
        return out
    if k == "str2":
        raw = bytes(bytearray.fromhex(t["v"]))
        return b"s" + struct.pack("<i", len(raw)) + raw
    if k == "text":
        raw = u"".join(chr(c) if isinstance(chr(0), type(u"")) else unichr(c) for c in t["v"]).encode("utf-8", "surrogatepass")  # noqa: F821
        return b"u" + struct.pack("<i", len(raw)) + raw
    if k == "tuple":
        return b"(" + struct.pack("<i", len(t["v"])) + b"".join(dump_tree(e, ver) for e in t["v"])
    if k == "code":
        d = t["v"]
        num = (lambda f: struct.pack("<i", int(d[f]["v"]))) if ver >= (2, 3) else (lambda f: struct.pack("<h", int(d[f]["v"])))
        out = b"c" + num("co_argcount") + num("co_nlocals")
        if ver >= (1, 5):
            out += num("co_stacksize")
        out += num("co_flags")
        for f in ("co_code", "co_consts", "co_names", "co_varnames"):
            out += dump_tree(d[f], ver)
        if ver >= (2, 1):
            out += dump_tree(d["co_freevars"], ver) + dump_tree(d["co_cellvars"], ver)
        out += dump_tree(d["co_filename"], ver) + dump_tree(d["co_name"], ver)
        if ver >= (1, 5):
            out += num("co_firstlineno") + dump_tree(d["co_lnotab"], ver)
        return out
    raise ValueError("cannot write %r in an old layout" % (k,))


def restrict_tree(t, ver):
    """the tree a file of version `ver` carries: nested code objects lose the fields that version does not have"""
    if isinstance(t, dict):
        if t.get("t") == "code":
            return {"t": "code", "v": dict((f, restrict_tree(t["v"][f], ver)) for f in code_fields(ver) if f in t["v"])}
        if isinstance(t.get("v"), list):
            return {"t": t["t"], "v": [restrict_tree(e, ver) for e in t["v"]]}
    if isinstance(t, list):
        return [restrict_tree(e, ver) for e in t]
    return t
