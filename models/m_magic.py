# M-magic: CPython's own magic-number registry, parsed from the comment table of
# the newest interpreter's importlib/_bootstrap_external.py (DESIGN 3.5).
import re

REGISTRY_FILE = "/root/.pyenv/versions/3.13.0/lib/python3.13/importlib/_bootstrap_external.py"

# magic written by the final (x.y.0 and later) releases; conformance: each value
# must appear in the parsed registry under that major.minor (checked in C08) and
# equal MAGIC_NUMBER of the nine installed interpreters.
FINAL = {
    (1, 5): 20121, (1, 6): 50428, (2, 0): 50823, (2, 1): 60202, (2, 2): 60717, (2, 3): 62011,
    (2, 4): 62061, (2, 5): 62131, (2, 6): 62161, (2, 7): 62211, (3, 0): 3131, (3, 1): 3151,
    (3, 2): 3180, (3, 3): 3230, (3, 4): 3310, (3, 5): 3350, (3, 6): 3379, (3, 7): 3394,
    (3, 8): 3413, (3, 9): 3425, (3, 10): 3439, (3, 11): 3495, (3, 12): 3531, (3, 13): 3571,
}
# second release magic inside one minor series
ALSO_RELEASED = {(3, 5): [3351]}

_ROW = re.compile(r"^#\s+Python (\d)\.(\d+)(?:\.(\d+))?([abrc]+\d+)?:?\s+(\d{4,5})\b")
_CONT = re.compile(r"^#\s+(\d{4,5}) \(")
_P3000 = re.compile(r"^#\s+Python 3000:\s+(\d{4})")


def registry():
    """[(magic_int, (major, minor), tag-text)] in file order"""
    rows = []
    cur = None
    inside = False
    with open(REGISTRY_FILE) as f:
        for line in f:
            if line.startswith("# Known values:"):
                inside = True
                continue
            if not inside:
                continue
            if line.startswith("MAGIC_NUMBER"):
                break
            m = _P3000.match(line)
            if m:
                cur = (3, 0)
                rows.append((int(m.group(1)), cur, "3000"))
                continue
            m = _ROW.match(line)
            if m:
                cur = (int(m.group(1)), int(m.group(2)))
                rows.append((int(m.group(5)), cur, (m.group(3) or "") + (m.group(4) or "")))
                continue
            m = _CONT.match(line)
            if m and cur is not None:
                rows.append((int(m.group(1)), cur, "cont"))
    return rows


def layout_class(ver):
    """marshal byte layout class of code objects (DESIGN 3.4)"""
    ver = tuple(ver[:2])
    for name, lo, hi in (("2.3-2.7", (2, 3), (2, 7)), ("3.0-3.7", (3, 0), (3, 7)),
                         ("3.8-3.10", (3, 8), (3, 10)), ("3.11-3.13", (3, 11), (3, 13))):
        if lo <= ver <= hi:
            return name, [v for v in sorted(FINAL) if lo <= v <= hi]
    return None, []
