# Canonical trees of what *xdis* returns, in the vocabulary of gen/canon.py
# (DESIGN 3.2).  Runs on every host (3.8+).
import json
import types

from gen.canon import code_fields, cps, f2hex, hx, istr

_XT = {}
_XPATH = []


def _xtypes():
    if not _XT:
        from xdis.codetype.base import CodeBase
        from xdis.cross_types import LongTypeForPython3, UnicodeForPython3

        _XT["code"] = CodeBase
        _XT["long"] = LongTypeForPython3
        _XT["uni"] = UnicodeForPython3
    return _XT


def _sortkey(d):
    return json.dumps(d, sort_keys=True)


def xcanon(x, ver, native_ver=None, binary=False):
    """canonical tree of an object returned by xdis for a file of bytecode version `ver`.
    Tolerances (DESIGN 3.2): py2 `str` may come back as str (valid UTF-8) or bytes;
    py2 unicode as UnicodeForPython3; long as LongTypeForPython3; in py3 files
    LongTypeForPython3 counts as int."""
    T = _xtypes()
    py2file = tuple(ver[:2]) < (3, 0)
    if x is None:
        return {"t": "none"}
    if x is True or x is False:
        return {"t": "bool", "v": bool(x)}
    if x is Ellipsis:
        return {"t": "ellipsis"}
    if x is StopIteration:
        return {"t": "stopiter"}
    t = type(x)
    if t is T["long"]:
        return {"t": "long2" if py2file else "int", "v": istr(x)}
    if t is int:
        return {"t": "int", "v": istr(x)}
    if t is float:
        return {"t": "float", "v": f2hex(x)}
    if t is complex:
        return {"t": "complex", "v": [f2hex(x.real), f2hex(x.imag)]}
    if t is T["uni"]:
        raw = x.value
        if isinstance(raw, bytes):
            try:
                text = raw.decode("utf-8", "surrogatepass")
            except UnicodeDecodeError:
                return {"t": "text-undecodable", "v": hx(raw)}
            # "equal in kind and content": the object must *be* that text for its user - same characters, equal to and
            # hashing like the plain string, found in a set of it
            if str.__str__(x) != text or len(x) != len(text) or not (x == text) or hash(x) != hash(text) or text not in {x}:
                return {"t": "text-but-not-usable-as-that-text", "v": cps(text)}
            return {"t": "text", "v": cps(text)}
        return {"t": "text", "v": cps(str(raw))}
    if t is str:
        if py2file:
            try:
                return {"t": "str2", "v": hx(x.encode("utf-8", "surrogatepass"))}
            except UnicodeEncodeError:
                return {"t": "str2-unencodable", "v": repr(x)}
        return {"t": "text", "v": cps(x)}
    if t is bytes:
        if py2file and not binary:
            # xdis's rule for a Python-2 str outside the binary fields (co_code, co_lnotab): valid UTF-8 comes
            # back as str, anything else as bytes - a function of the content, never of what preceded it in the stream
            try:
                x.decode("utf-8")
                return {"t": "str2-as-bytes-though-decodable", "v": hx(x)}
            except UnicodeDecodeError:
                pass
        return {"t": "str2" if py2file else "bytes", "v": hx(x)}
    if t is tuple:
        return {"t": "tuple", "v": [xcanon(e, ver) for e in x]}
    if t is list:
        if id(x) in _XPATH:
            return {"t": "cycle", "v": len(_XPATH) - _XPATH.index(id(x))}
        _XPATH.append(id(x))
        try:
            return {"t": "list", "v": [xcanon(e, ver) for e in x]}
        finally:
            _XPATH.pop()
    if t is set or t is frozenset:
        items = [xcanon(e, ver) for e in x]
        items.sort(key=_sortkey)
        return {"t": "set" if t is set else "frozenset", "v": items}
    if t is dict:
        if id(x) in _XPATH:
            return {"t": "cycle", "v": len(_XPATH) - _XPATH.index(id(x))}
        _XPATH.append(id(x))
        try:
            items = [[xcanon(k, ver), xcanon(v, ver)] for k, v in x.items()]
        finally:
            _XPATH.pop()
        if False:
            items = []
        items.sort(key=lambda kv: _sortkey(kv[0]))
        return {"t": "dict", "v": items}
    if isinstance(x, T["code"]) or t is types.CodeType:
        d = {}
        for f in code_fields(ver):
            if not hasattr(x, f):
                d[f] = {"t": "missing"}
            else:
                d[f] = xcanon(getattr(x, f), ver, binary=f in ("co_code", "co_lnotab"))
        return {"t": "code", "v": d}
    return {"t": "unknown:" + t.__name__, "v": repr(x)[:80]}


def tree_diff(exp, got, path="", nan_loose=False):
    """first difference between two canonical trees as (path, expected-summary, got-summary) or None"""
    if type(exp) is not type(got):
        return (path, _short(exp), _short(got))
    if isinstance(exp, dict):
        if exp.get("t") != got.get("t"):
            return (path, _short(exp), _short(got))
        ev, gv = exp.get("v"), got.get("v")
        if exp.get("t") == "code":
            for f in ev:
                if f not in gv:
                    return (path + "." + f, _short(ev[f]), "absent")
                d = tree_diff(ev[f], gv[f], path + "." + f, nan_loose)
                if d:
                    return d
            return None
        if isinstance(ev, list) and isinstance(gv, list) and exp.get("t") in ("tuple", "list", "set", "frozenset", "dict"):
            if len(ev) != len(gv):
                return (path + "#len", "%s len %d" % (exp["t"], len(ev)), "%s len %d" % (got["t"], len(gv)))
            for i, (a, b) in enumerate(zip(ev, gv)):
                d = tree_diff(a, b, "%s[%d]" % (path, i), nan_loose)
                if d:
                    return d
            return None
        if ev != gv:
            if nan_loose and exp.get("t") in ("float", "complex") and _nan_equal(ev, gv):
                return None
            return (path, _short(exp), _short(got))
        return None
    if isinstance(exp, list):
        if len(exp) != len(got):
            return (path + "#len", len(exp), len(got))
        for i, (a, b) in enumerate(zip(exp, got)):
            d = tree_diff(a, b, "%s[%d]" % (path, i), nan_loose)
            if d:
                return d
        return None
    if exp != got:
        return (path, _short(exp), _short(got))
    return None


def _is_nan_hex(h):
    v = int(h, 16)
    return (v >> 52) & 0x7FF == 0x7FF and (v & ((1 << 52) - 1)) != 0


def _nan_equal(a, b):
    """text float encodings (marshal format 0/1) lose the NaN payload/sign: any NaN equals any NaN"""
    if isinstance(a, str):
        a, b = [a], [b]
    return all(x == y or (_is_nan_hex(x) and _is_nan_hex(y)) for x, y in zip(a, b))


def _short(d):
    s = json.dumps(d, sort_keys=True)
    return s if len(s) <= 160 else s[:157] + "..."


def kind_of(d):
    return d.get("t") if isinstance(d, dict) else type(d).__name__


def walk_xcodes(co):
    """pre-order list of an xdis (portable or native) code object and its nested ones"""
    T = _xtypes()
    out = [co]
    for c in co.co_consts:
        if isinstance(c, T["code"]) or isinstance(c, types.CodeType):
            out.extend(walk_xcodes(c))
    return out
