# Shared host-side machinery: interpreters, dataset cache (oracle farm), the
# sharded exhaustive driver, evidence, known findings, replays.
# Must stay importable on Python 3.8 .. 3.13.
import fcntl
import glob
import gzip
import hashlib
import json
import os
import random
import subprocess
import sys
import time

VERIF = os.path.dirname(os.path.dirname(os.path.abspath(__file__)))
REPO = os.environ.get("VERIF_REPO", "/repo")
CACHE = os.path.join(VERIF, ".cache")
# where evidence/ and replays/ are written; redirected while a seeded change is being evaluated so that the committed
# evidence always comes from runs against /repo itself
OUT = os.environ.get("VERIF_OUT", VERIF)
PYENV = "/root/.pyenv/versions"

FULL = {
    "2.7": "2.7.18", "3.6": "3.6.15", "3.7": "3.7.16", "3.8": "3.8.18", "3.9": "3.9.18",
    "3.10": "3.10.13", "3.11": "3.11.7", "3.12": "3.12.1", "3.13": "3.13.0",
}
REFS = ["2.7", "3.6", "3.7", "3.8", "3.9", "3.10", "3.11", "3.12", "3.13"]
HOSTS = ["3.8", "3.9", "3.10", "3.11", "3.12", "3.13"]
PRIMARY = "3.12"
NCPU = int(os.environ.get("VERIF_JOBS", "0")) or (os.cpu_count() or 4)


def vt(v):
    return tuple(int(x) for x in v.split("."))


def interp(v):
    return "%s/%s/bin/python" % (PYENV, FULL[v])


def base_env(host=True):
    env = dict(os.environ)
    env["PYTHONHASHSEED"] = "0"
    env["PYTHONDONTWRITEBYTECODE"] = "1"
    env["PYTHONIOENCODING"] = "utf-8"
    env.pop("PYTHONSTARTUP", None)
    if host:
        env["PYTHONPATH"] = REPO + os.pathsep + VERIF
        env["VERIF_REPO"] = REPO
    else:
        env["PYTHONPATH"] = VERIF
    return env


# --------------------------------------------------------------------- farm
MODE_DEPS = {
    "progs": ["gen/programs.py"],
}



def _dep_hash(mode, ver, args):
    h = hashlib.sha1()
    files = ["oracle/ref_main.py", "gen/canon.py", "gen/mdis.py"] + MODE_DEPS.get(mode, [])
    m = "oracle/m_%s.py" % mode
    if os.path.exists(os.path.join(VERIF, m)):
        files.append(m)
        g = "gen/g_%s.py" % mode
        if os.path.exists(os.path.join(VERIF, g)):
            files.append(g)
    for f in files:
        with open(os.path.join(VERIF, f), "rb") as fh:
            h.update(fh.read())
    h.update(repr((mode, FULL[ver], [str(a) for a in args])).encode())
    return h.hexdigest()[:12]


def dataset(mode, ver, *args):
    """path of the ground-truth dataset `mode` produced by reference interpreter
    `ver`; built on demand (file-locked), cached by generator+interpreter hash"""
    os.makedirs(CACHE, exist_ok=True)
    tag = "-".join([mode, ver] + [str(a) for a in args])
    path = os.path.join(CACHE, "%s-%s.jsonl.gz" % (tag, _dep_hash(mode, ver, args)))
    if os.path.exists(path):
        return path
    lock = open(path + ".lock", "w")
    try:
        fcntl.flock(lock, fcntl.LOCK_EX)
        if os.path.exists(path):
            return path
        for old in glob.glob(os.path.join(CACHE, tag + "-????????????.jsonl.gz")):
            os.unlink(old)
        cmd = [interp(ver), os.path.join(VERIF, "oracle", "ref_main.py"), mode, path] + [str(a) for a in args]
        p = subprocess.run(cmd, env=base_env(host=False), stdout=subprocess.PIPE, stderr=subprocess.STDOUT,
                           cwd=VERIF)
        if p.returncode != 0 or not os.path.exists(path):
            raise RuntimeError("oracle farm failed: %s\n%s" % (" ".join(cmd), p.stdout.decode("utf-8", "replace")[-3000:]))
        return path
    finally:
        fcntl.flock(lock, fcntl.LOCK_UN)
        lock.close()
        try:
            os.unlink(path + ".lock")
        except OSError:
            pass


def datasets(mode, vers, *args):
    """build several datasets in parallel; returns {ver: path}"""
    from concurrent.futures import ThreadPoolExecutor

    with ThreadPoolExecutor(max_workers=min(len(vers), NCPU) or 1) as ex:
        futs = {v: ex.submit(dataset, mode, v, *args) for v in vers}
        return {v: f.result() for v, f in futs.items()}


def read_dataset(path, shard=0, nshards=1):
    """yield (index, record) for the lines of this shard; the __meta__ record is
    yielded to shard 0 only with index -1"""
    with gzip.open(path, "rb") as f:
        for i, line in enumerate(f):
            if b'"id":"__meta__"' in line:
                if shard == 0:
                    yield -1, json.loads(line.decode("ascii"))
                continue
            if i % nshards == shard:
                yield i, json.loads(line.decode("ascii"))


def read_meta(path):
    with gzip.open(path, "rb") as f:
        for line in f:
            if b'"id":"__meta__"' in line:
                return json.loads(line.decode("ascii"))
    return {}


def oracle_batch(ver, requests):
    """ask reference interpreter `ver` a batch of questions (oracle/server.py); returns the list of answers"""
    cmd = [interp(ver), os.path.join(VERIF, "oracle", "ref_main.py"), "server"]
    data = "\n".join(json.dumps(r) for r in requests) + "\n"
    p = subprocess.run(cmd, input=data.encode("ascii"), env=base_env(host=False), stdout=subprocess.PIPE, stderr=subprocess.PIPE, cwd=VERIF)
    if p.returncode != 0 and len(requests) > 1:
        # the interpreter itself died on one of the requests (e.g. Python 2.7 aborts on a malformed code object):
        # ask one request per process so that the culprit is identified and the others are still answered
        out = []
        for r in requests:
            try:
                out.extend(oracle_batch(ver, [r]))
            except RuntimeError as e:
                out.append({"error": "InterpreterDied: " + str(e)[-200:].replace("\n", " ")})
        return out
    if p.returncode != 0:
        raise RuntimeError("oracle server %s failed: %s" % (ver, p.stderr.decode("utf-8", "replace")[-1500:]))
    lines = [l for l in p.stdout.decode("ascii").splitlines() if l.strip()]
    if len(lines) != len(requests):
        raise RuntimeError("oracle server %s answered %d of %d requests" % (ver, len(lines), len(requests)))
    return [json.loads(l) for l in lines]


# --------------------------------------------------------------------- worker ctx
class Ctx(object):
    """collects what one worker saw"""

    MAX_SIGS = 400

    def __init__(self, host):
        self.host = host
        self.evaluations = 0
        self.keys = set()
        self.nontrivial = 0
        self.counts = {}
        self.viol = {}  # sig -> {"n":, "msg":, "case":}
        self.samples = []
        self.case = None

    def count(self, name, n=1):
        self.counts[name] = self.counts.get(name, 0) + n

    def violation(self, sig, msg, **detail):
        v = self.viol.get(sig)
        if v is None:
            if len(self.viol) >= self.MAX_SIGS:
                self.count("violations_beyond_sig_cap")
                return
            v = self.viol[sig] = {"n": 0, "msg": msg, "case": self.case, "detail": detail, "host": self.host}
        v["n"] += 1

    def result(self):
        return {
            "host": self.host, "evaluations": self.evaluations, "distinct": len(self.keys),
            "counts": self.counts, "viol": self.viol, "samples": self.samples,
        }


def stable_hash(s):
    return int(hashlib.md5(s.encode("utf-8", "surrogatepass") if isinstance(s, str) else s).hexdigest()[:8], 16)


def secondary_case_ok(case, host):
    """bounded sub-space of the compiled programs for the non-primary hosts: every program at module scope for all nine
    file versions, and all four scopes where the file is the host's own version (native path)"""
    if case.get("kind") != "prog":
        return True
    pid = str(case.get("id", ""))
    ver = case.get("ver")
    native = bool(ver) and "%d.%d" % (ver[0], ver[1]) == host
    if "+" in pid or pid.startswith("design"):
        return False    # the k=2 pairs and the pairwise design (thorough tier) run on the primary host only
    return native or "@module" in pid


def worker_main(argv):
    """python -m vlib.worker <check> <tier> <shard> <nshards> <host> <planfile> <outfile>"""
    check, tier, shard, nshards, host, planfile, outfile = argv[1:8]
    shard, nshards = int(shard), int(nshards)
    seed = int(os.environ.get("VERIF_SEED", "0") or 0)
    mod = __import__("checks." + check, fromlist=["run_case"])
    with open(planfile) as f:
        plan = json.load(f)
    ctx = Ctx(host)
    rnd = random.Random(seed * 7919 + shard)
    t0 = time.time()
    # fd-level silence: xdis prints debug text / tracebacks; keep protocol on a file
    devnull = os.open(os.devnull, os.O_WRONLY)
    if not os.environ.get("VERIF_DEBUG"):
        os.dup2(devnull, 1)
        os.dup2(devnull, 2)
    if hasattr(mod, "worker_init"):
        mod.worker_init(plan, tier, host)
    block = []

    def flush():
        rnd.shuffle(block)
        for case in block:
            ctx.case = case
            ctx.evaluations += 1
            k = mod.case_key(case) if hasattr(mod, "case_key") else json.dumps(case, sort_keys=True)
            ctx.keys.add(stable_hash(k))
            try:
                mod.run_case(case, ctx)
            except Exception as e:  # harness error: never silently swallowed
                import traceback

                ctx.violation("HARNESS-ERROR:%s" % type(e).__name__, traceback.format_exc()[-1500:])
            if len(ctx.samples) < 3 and hasattr(mod, "describe"):
                ctx.samples.append(mod.describe(case))
        del block[:]

    rp = os.environ.get("VERIF_REPLAY_CASE")
    if rp:
        with open(rp) as f:
            it = [json.load(f)["case"]]
    else:
        it = mod.cases(plan, tier, shard, nshards, host)
    # a check may name the case kinds that also run on the non-primary hosts (the rest runs on the primary host only)
    sec = getattr(mod, "SECONDARY_KINDS", None) if host != PRIMARY else None
    for case in it:
        if sec is not None and not rp and (case.get("kind") not in sec or not secondary_case_ok(case, host)):
            continue
        block.append(case)
        if len(block) >= 512:
            flush()
    flush()
    canary = None
    if shard == 0 and hasattr(mod, "canary_cases"):
        detected = total = 0
        for case in mod.canary_cases(plan, tier, host):
            c2 = Ctx(host)
            c2.case = case
            try:
                mod.run_case(case, c2)
            except Exception:
                c2.violation("HARNESS-ERROR", "canary crashed")
            total += 1
            if c2.viol and not any(s.startswith("HARNESS-ERROR") for s in c2.viol):
                detected += 1
        canary = [detected, total]
    res = ctx.result()
    res["canary"] = canary
    res["wall_s"] = time.time() - t0
    if hasattr(mod, "worker_fini"):
        res["extra"] = mod.worker_fini(ctx)
    with open(outfile, "w") as f:
        json.dump(res, f)
    return 0


# --------------------------------------------------------------------- findings
def load_findings():
    p = os.path.join(VERIF, "known_findings.json")
    if not os.path.exists(p):
        return {"known": [], "fixed": []}
    with open(p) as f:
        return json.load(f)


def known_signatures(pid):
    return {k["signature"]: k for k in load_findings().get("known", []) if k["property"] == pid}


# --------------------------------------------------------------------- driver
def run_check(mod, tier, replay=None):
    pid = mod.ID
    seed = int(os.environ.get("VERIF_SEED", "0") or 0)
    t0 = time.time()
    os.makedirs(os.path.join(OUT, "evidence"), exist_ok=True)
    work = os.path.join(CACHE, "work", "%s-%d" % (pid, os.getpid()))
    os.makedirs(work, exist_ok=True)
    try:
        if replay:
            return _replay(mod, tier, replay, work)
        plan = mod.prepare(tier)
        planfile = os.path.join(work, "plan.json")
        with open(planfile, "w") as f:
            json.dump(plan, f)
        hosts = mod.hosts(tier) if hasattr(mod, "hosts") else [PRIMARY]
        per = max(1, NCPU // len(hosts))
        if hasattr(mod, "max_workers"):
            per = max(1, min(per, mod.max_workers(tier)))
        procs = []
        for h in hosts:
            nper = mod.workers_for_host(tier, h) if hasattr(mod, "workers_for_host") else per
            for s in range(nper):
                out = os.path.join(work, "res-%s-%d.json" % (h, s))
                cmd = [interp(h), "-m", "vlib.worker", pid, tier, str(s), str(nper), h, planfile, out]
                procs.append((h, s, out, subprocess.Popen(cmd, env=base_env(), cwd=VERIF)))
        results = []
        harness_fail = []
        for (h, s, out, p) in procs:
            try:
                rc = p.wait(timeout=int(os.environ.get("VERIF_WORKER_TIMEOUT", "7200")))
            except subprocess.TimeoutExpired:
                p.kill()
                rc = -9
            if rc != 0 or not os.path.exists(out):
                harness_fail.append("worker host=%s shard=%d exit=%s" % (h, s, rc))
                continue
            with open(out) as f:
                results.append(json.load(f))
        return _finish(mod, tier, seed, plan, hosts, results, harness_fail, time.time() - t0)
    finally:
        import shutil

        shutil.rmtree(work, ignore_errors=True)


def _finish(mod, tier, seed, plan, hosts, results, harness_fail, wall):
    pid = mod.ID
    known = known_signatures(pid)
    evaluations = sum(r["evaluations"] for r in results)
    distinct_by_host = {}
    counts = {}
    viol = {}
    samples = []
    canary = [0, 0]
    extras = []
    for r in results:
        distinct_by_host[r["host"]] = distinct_by_host.get(r["host"], 0) + r["distinct"]
        for k, v in r["counts"].items():
            counts[k] = counts.get(k, 0) + v
        for sig, v in r["viol"].items():
            if sig not in viol:
                viol[sig] = v
            else:
                viol[sig]["n"] += v["n"]
        if len(samples) < 5:
            samples.extend(r["samples"][: 5 - len(samples)])
        if r.get("canary"):
            canary[0] += r["canary"][0]
            canary[1] += r["canary"][1]
        if r.get("extra") is not None:
            extras.append(r["extra"])
    if hasattr(mod, "cross_check"):
        # checks whose oracle is agreement *between* workers (e.g. hosts): run once, on the merged results
        for sig, msg, case, host in mod.cross_check(plan, extras, results):
            v = viol.setdefault(sig, {"n": 0, "msg": msg, "case": case, "detail": {}, "host": host})
            v["n"] += 1
    unlisted = {s: v for s, v in viol.items() if s not in known}
    matched = {s: v for s, v in viol.items() if s in known}
    lines = []
    for s in sorted(matched):
        lines.append("KNOWN-FINDING: property=%s %s [%s] (x%d this run)" % (pid, known[s].get("what", ""), s, matched[s]["n"]))
    rdir = os.path.join(OUT, "replays", pid)
    nviol = 0
    for s in sorted(unlisted):
        os.makedirs(rdir, exist_ok=True)
        v = unlisted[s]
        rp = os.path.join(rdir, "%s.json" % hashlib.sha1(s.encode()).hexdigest()[:12])
        with open(rp, "w") as f:
            json.dump({"property": pid, "signature": s, "msg": v["msg"], "host": v["host"], "tier": tier,
                       "count_this_run": v["n"], "detail": v.get("detail"), "case": v["case"]}, f, indent=1)
        nviol += 1
        if nviol <= 40:
            lines.append("VIOLATION property=%s replay=%s  # %s: %s" % (pid, rp, s, str(v["msg"])[:200]))
    for hf in harness_fail:
        lines.append("VIOLATION property=%s replay=none  # HARNESS FAILURE %s" % (pid, hf))
    if canary[1] and canary[0] != canary[1]:
        lines.append("VIOLATION property=%s replay=none  # SELFTEST: comparator accepted %d of %d perturbed records"
                     % (pid, canary[1] - canary[0], canary[1]))
    distinct = max(distinct_by_host.values()) if distinct_by_host else 0
    cov = {
        "evaluations": evaluations,
        "distinct_nontrivial": distinct,
        "rule": mod.RULE,
        "samples": samples or ["(no case produced)"],
        "exhaustive": bool(getattr(mod, "EXHAUSTIVE", False)),
        "hosts": hosts,
        "distinct_by_host": distinct_by_host,
        "counts": counts,
        "selftest_detected": canary,
        "known_findings_matched": {s: matched[s]["n"] for s in matched},
        "unlisted_violation_signatures": sorted(unlisted)[:50],
        "bounds": mod.bounds(tier) if hasattr(mod, "bounds") else {},
        "worker_wall_s_max_by_host": {h: round(max([r.get("wall_s", 0) for r in results if r["host"] == h] or [0]), 1) for h in hosts},
    }
    if hasattr(mod, "summarize"):
        cov.update(mod.summarize(plan, counts, extras, results))
    ev = {
        "property_id": pid, "tier": tier, "seed": seed, "level": mod.LEVEL, "coverage": cov,
        "assumptions": list(getattr(mod, "ASSUMPTIONS", [])), "wall_s": round(wall, 2),
        "violations": len(unlisted) + len(harness_fail),
    }
    with open(os.path.join(OUT, "evidence", "%s.json" % pid), "w") as f:
        json.dump(ev, f, indent=1, sort_keys=True)
    bad = bool(unlisted) or bool(harness_fail) or (canary[1] and canary[0] != canary[1])
    for ln in lines:
        print(ln)
    print("%s tier=%s seed=%d evaluations=%d distinct=%d known=%d unlisted=%d wall=%.1fs canary=%s"
          % (pid, tier, seed, evaluations, distinct, len(matched), len(unlisted), wall, canary))
    if evaluations == 0:
        print("VIOLATION property=%s replay=none  # HARNESS: nothing was explored" % pid)
        bad = True
    return 1 if bad else 0


def _replay(mod, tier, path, work):
    with open(path) as f:
        rp = json.load(f)
    host = rp.get("host") or PRIMARY
    tier = rp.get("tier") or tier
    plan = mod.prepare(tier)
    planfile = os.path.join(work, "plan.json")
    with open(planfile, "w") as f:
        json.dump(plan, f)
    obs = []
    for k in range(2):
        out = os.path.join(work, "replay-%d.json" % k)
        env = base_env()
        env["VERIF_REPLAY_CASE"] = path
        cmd = [interp(host), "-m", "vlib.worker", mod.ID, tier, "0", "1", host, planfile, out]
        subprocess.run(cmd, env=env, cwd=VERIF, check=True)
        with open(out) as f:
            obs.append(sorted(json.load(f)["viol"].keys()))
    if obs[0] != obs[1]:
        print("REPLAY-NONDETERMINISTIC %s vs %s" % (obs[0], obs[1]))
        return 2
    known = known_signatures(mod.ID)
    new = [s for s in obs[0] if s not in known]
    for s in obs[0]:
        print("replayed: %s%s" % (s, " (known finding)" if s in known else ""))
    if new:
        print("VIOLATION property=%s replay=%s" % (mod.ID, path))
        return 1
    print("replay: no unlisted violation")
    return 0
