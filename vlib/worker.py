import sys

from vlib.common import worker_main

if __name__ == "__main__":
    sys.exit(worker_main(sys.argv))
