# xdis-side helpers for instruction-level checks (C02-C05, C12, C17, C20)
import io

from gen.canon import unhx

_OPC = {}


def opc_for(ver, pypy=False):
    """the table the library itself picks for a file of version `ver`"""
    from xdis.disasm import get_opcode

    k = (tuple(ver[:2]), pypy)
    if k not in _OPC:
        _OPC[k] = get_opcode(tuple(ver[:2]), pypy)
    return _OPC[k]


def load_pyc(hexpyc):
    """(version_tuple, code) through the public loader; ImportError propagates"""
    from xdis.load import load_module_from_file_object

    res = load_module_from_file_object(io.BytesIO(unhx(hexpyc)), filename="<verif>")
    return res[0], res[3], res


def load_payload(hexpayload, ver):
    """portable code object from a bare marshal payload of version `ver`"""
    import xdis.unmarshal
    from models.m_magic import FINAL

    return xdis.unmarshal.load_code(io.BytesIO(unhx(hexpayload)), FINAL[tuple(ver[:2])])


def portable_with_code(ver, co_code, nconst=300, nname=300, nvar=260, lnotab=b"", firstlineno=1):
    """a portable code object of version `ver` with wide tables and the given co_code"""
    from xdis.codetype import to_portable

    ver = tuple(ver[:2])
    py2 = ver < (3, 0)
    return to_portable(
        co_argcount=0, co_posonlyargcount=0, co_kwonlyargcount=0, co_nlocals=nvar, co_stacksize=10, co_flags=0,
        co_code=co_code, co_consts=tuple(range(1000, 1000 + nconst)), co_names=tuple("n%d" % i for i in range(nname)),
        co_varnames=tuple("v%d" % i for i in range(nvar)), co_filename="<raw>", co_name="raw", co_qualname="raw",
        co_firstlineno=firstlineno, co_lnotab=lnotab, co_freevars=tuple("f%d" % i for i in range(4)),
        co_cellvars=tuple("c%d" % i for i in range(4)), co_exceptiontable=b"", version_triple=ver + (0,),
    )


def xinsts(co, opc, dup_lines=False, first_line=None):
    from xdis.bytecode import Bytecode

    return list(Bytecode(co, opc, first_line=first_line, dup_lines=dup_lines))


def width(op, arg, P):
    if P["wordcode"]:
        return 2
    return 3 if op >= P["have_arg"] else 1


def tiling_error(insts, codelen, P):
    """None if the instruction offsets tile [0, codelen) exactly"""
    pos = 0
    for i in insts:
        if i.offset != pos:
            return "instruction at %d, expected offset %d" % (i.offset, pos)
        pos += width(i.opcode, i.arg, P)
    if pos != codelen:
        return "last instruction ends at %d, code length %d" % (pos, codelen)
    return None


def split_caches(insts, P):
    """(non-CACHE instructions, error) - the CACHE entries must be exactly the slots predicted"""
    caches = {int(k): v for k, v in (P.get("caches") or {}).items()}
    if not caches:
        return insts, None
    out = []
    pending = 0
    err = None
    for i in insts:
        if pending:
            if i.opname != "CACHE":
                # dis shows whatever byte is there as the opcode of the cache slot only with show_caches;
                # a zeroed slot must be reported as CACHE
                if i.opcode == 0 and err is None:
                    err = "cache slot at %d reported as %s" % (i.offset, i.opname)
            pending -= 1
            continue
        out.append(i)
        pending = caches.get(i.opcode, 0)
    return out, err
