# canonical argval of an xdis Instruction, in the vocabulary of oracle/ref_main.argval_canon
import types

from vlib.xcanon import _xtypes, xcanon


def strip_code(d):
    if isinstance(d, dict):
        if d.get("t") == "code":
            return {"t": "coderef", "v": d["v"]["co_name"]}
        if isinstance(d.get("v"), list):
            return {"t": d["t"], "v": [strip_code(e) for e in d["v"]]}
    if isinstance(d, list):
        return [strip_code(e) for e in d]
    return d


def xargval(v, ver, is_compare=False):
    T = _xtypes()
    ver = tuple(ver[:2])
    if isinstance(v, bool) or v is None:
        return ["c", xcanon(v, ver)]
    if isinstance(v, int):
        from gen.canon import istr

        return ["i", int(v)] if -10 ** 18 < v < 10 ** 18 else ["I", istr(v)]
    if isinstance(v, T["code"]) or isinstance(v, types.CodeType):
        n = v.co_name
        return ["code", n if isinstance(n, str) else n.decode("latin-1")]
    if isinstance(v, T["uni"]):
        raw = v.value
        return ["s", raw.decode("utf-8", "surrogatepass") if isinstance(raw, bytes) else str(raw)]
    if isinstance(v, str):
        if is_compare:
            return ["s", v.replace("-", " ")]
        if ver < (3, 0):
            # a py2 byte string that xdis chose to show as text (DESIGN 3.2): compare its bytes
            return ["s", v.encode("utf-8", "surrogatepass").decode("latin-1")]
        return ["s", v]
    if isinstance(v, bytes) and ver < (3, 0):
        return ["s", v.decode("latin-1")]
    if isinstance(v, tuple) and v and all(isinstance(e, str) for e in v) and ver >= (3, 13):
        return ["p", list(v)]
    return ["c", strip_code(xcanon(v, ver))]
