# -*- coding: utf-8 -*-
# E-fmt for marshal (C10, C01-ii): a value grammar V placed in co_consts of a
# code object, written (a) by this interpreter's own marshal.dumps in every
# format version and (b) by a small stream assembler with <= d alternative
# encoding choices (deviations).  A stream is in the domain only if this
# interpreter's marshal.loads accepts it; its answer is the ground truth.
from __future__ import print_function

import marshal
import struct
import sys
import types

PY2 = sys.version_info[0] == 2
VER = sys.version_info[:2]
HAS_REF = VER >= (3, 4)

if PY2:
    text_type = unicode  # noqa: F821
    long_type = long  # noqa: F821
else:
    text_type = str
    long_type = int


def u(s):
    return s.decode("unicode_escape") if PY2 else s


# ------------------------------------------------------------------ values
def atoms():
    A = [None, True, False, Ellipsis, StopIteration]
    A += [0, 1, -1, 2 ** 15 - 1, 2 ** 15, 2 ** 31 - 1, -2 ** 31, 2 ** 31, 2 ** 32, 2 ** 63 - 1, -2 ** 63, 2 ** 63, 10 ** 30, -(10 ** 30)]
    inf = float("inf")
    nan = inf - inf
    A += [0.0, -0.0, 1.5, 1e-320, 1.7976931348623157e308, inf, -inf, nan]
    A += [1 + 2j, complex(-0.0, 0.0), complex(nan, inf)]
    A += [b"", b"a", b"\x00\xff", b"x" * 300, b"\xc3\xa9"]
    A += [u(""), u("a"), u("\\xe9"), u("\\u20ac"), u("\\U0001F600"), u("a") * 255, u("a") * 256, u("\\xe9") * 300, u("abc def")]
    if not PY2:
        A.append("\ud800")
    if PY2:
        A += [long_type(5), long_type(2 ** 40)]
    return A


def reduced():
    R = [None, 1, 2 ** 31, 1.5, u("a"), u("\\xe9"), b"a", (), (1, 2)]
    if PY2:
        R.append(long_type(7))
    return R


def hashable(x):
    try:
        hash(x)
        return True
    except TypeError:
        return False


def values(depth):
    """(tag, value) pairs; sharing is by object identity inside a value"""
    A = atoms()
    R = reduced()
    out = []
    for i, a in enumerate(A):
        out.append(("atom%d" % i, a))
    conts = []
    for i, a in enumerate(A):
        conts.append(("tuple1:%d" % i, (a,)))
        conts.append(("list1:%d" % i, [a]))
        if hashable(a):
            conts.append(("fset1:%d" % i, frozenset([a])))
            conts.append(("set1:%d" % i, set([a])))
            conts.append(("dictk:%d" % i, {a: 1}))
        conts.append(("dictv:%d" % i, {1: a}))
    for i, a in enumerate(R):
        for j, b_ in enumerate(R):
            conts.append(("tuple2:%d,%d" % (i, j), (a, b_)))
            if i <= j:
                conts.append(("list2:%d,%d" % (i, j), [a, b_]))
                conts.append(("fset2:%d,%d" % (i, j), frozenset([a, b_])))
                conts.append(("dict2:%d,%d" % (i, j), {a: b_, 2: a}))
    conts += [("tuple0", ()), ("list0", []), ("set0", set()), ("fset0", frozenset()), ("dict0", {}),
              ("dict_none_key", {None: 1, 2: 3}), ("dict_none_val", {1: None, 2: 3}), ("dict_in_tuple", ({1: None}, 5)),
              ("dict_none_both", {None: None})]
    for n in (255, 256, 300):
        conts.append(("tuple%d" % n, tuple([7] * n)))
        conts.append(("tuplestr%d" % n, tuple([u("s")] * n)))
        conts.append(("list%d" % n, [None] * n))
        conts.append(("fset%d" % n, frozenset(range(n))))
        conts.append(("set%d" % n, set(range(n))))
        conts.append(("dict%d" % n, dict((k, k) for k in range(n))))
    out += conts
    # sharing patterns (same object at several places)
    sh = [10 ** 30, u("shared text"), u("\\xe9") * 300, (1, 2), frozenset([1, 2]), b"shared bytes", 1.5, 2 ** 31, (u("a"), (3,))]
    for i, x in enumerate(sh):
        out.append(("share_sib:%d" % i, (x, x)))
        out.append(("share_sib3:%d" % i, (x, 0, x, x)))
        out.append(("share_nest:%d" % i, (x, (x,))))
        out.append(("share_nest2:%d" % i, ((x,), [x], x)))
        out.append(("share_dict:%d" % i, {x: x}))
        out.append(("share_list:%d" % i, [x, x]))
        out.append(("share_big:%d" % i, tuple([x] + [0] * 254 + [x])))
        out.append(("share_big256:%d" % i, tuple([x] + [0] * 255 + [x])))
        out.append(("share_fset:%d" % i, (x, frozenset([x, 5]))))
    if depth >= 2:
        R2 = [(), (1,), [1], frozenset([1]), {1: 2}, (None, u("a")), [], {}]
        for i, a in enumerate(R2):
            for kind in ("tuple", "list", "dictv"):
                v = (a, 5) if kind == "tuple" else ([a, 5] if kind == "list" else {5: a})
                out.append(("d2:%s:%d" % (kind, i), v))
            if hashable(a):
                out.append(("d2:fset:%d" % i, frozenset([a, 5])))
                out.append(("d2:dictk:%d" % i, {a: 5}))
    if depth >= 3:
        R3 = [((1,),), [[1]], ({1: (2,)},), (frozenset([(1, 2)]),), [((), [])]]
        for i, a in enumerate(R3):
            out.append(("d3:tuple:%d" % i, (a, a)))
            out.append(("d3:list:%d" % i, [a, 6]))
            out.append(("d3:dict:%d" % i, {6: a}))
    return out


# ------------------------------------------------------------------ assembler
REFABLE = "refable"


class Writer(object):
    def __init__(self, overrides):
        self.out = bytearray()
        self.points = []
        self.ov = overrides
        self.refs = {}
        self.nref = 0
        self.interned = {}
        self.textfloat = False
        self.keep = []

    def choose(self, key, options):
        idx = len(self.points)
        self.points.append((key, options))
        return options[self.ov.get(idx, 0)]

    def i32(self, n):
        self.out += struct.pack("<i", n)

    def tb(self, ch, flag=False):
        self.out.append(ord(ch) | (0x80 if flag else 0))

    def flag_for(self, o, kind):
        """decide FLAG_REF for a refable object; registers the reference index"""
        if not HAS_REF:
            return False
        if self.choose("flag:" + kind, ["noflag", "flag"]) == "flag":
            self.refs[id(o)] = self.nref
            self.nref += 1
            return True
        return False

    def w(self, o):
        self.keep.append(o)
        if HAS_REF and id(o) in self.refs:
            if self.choose("useref", ["ref", "again"]) == "ref":
                self.tb("r")
                self.i32(self.refs[id(o)])
                return
        if PY2 and id(o) in self.interned:
            if self.choose("useR", ["R", "again"]) == "R":
                self.tb("R")
                self.i32(self.interned[id(o)])
                return
        if o is None or o is True or o is False or o is Ellipsis or o is StopIteration:
            ch = {id(None): "N", id(True): "T", id(False): "F", id(Ellipsis): ".", id(StopIteration): "S"}[id(o)]
            fl = False
            if HAS_REF and o is None:
                fl = self.choose("flag:singleton", ["noflag", "flag"]) == "flag"  # consumes no index in CPython
            self.tb(ch, fl)
            return
        t = type(o)
        if t is int or t is long_type:
            forms = []
            if -2 ** 31 <= o < 2 ** 31 and not (PY2 and t is long_type):
                forms.append("i")
            if PY2 and t is int and not (-2 ** 31 <= o < 2 ** 31):
                forms.append("I")
            forms.append("l")
            if -2 ** 63 <= o < 2 ** 63 and "I" not in forms and (PY2 or VER < (3, 4) or True):
                forms.append("I")
            form = self.choose("int", forms)
            fl = self.flag_for(o, "int")
            if form == "i":
                self.tb("i", fl)
                self.i32(o)
            elif form == "I":
                self.tb("I", fl)
                self.out += struct.pack("<q", o)
            else:
                self.tb("l", fl)
                a = abs(o)
                digits = []
                while a:
                    digits.append(a & 0x7FFF)
                    a >>= 15
                self.i32(-len(digits) if o < 0 else len(digits))
                for d in digits:
                    self.out += struct.pack("<H", d)
            return
        if t is float:
            form = self.choose("float", ["g", "f"])
            fl = self.flag_for(o, "float")
            if form == "g":
                self.tb("g", fl)
                self.out += struct.pack("<d", o)
            else:
                self.textfloat = True
                s = repr(o).encode("ascii")
                self.tb("f", fl)
                self.out.append(len(s))
                self.out += s
            return
        if t is complex:
            form = self.choose("complex", ["y", "x"])
            fl = self.flag_for(o, "complex")
            if form == "y":
                self.tb("y", fl)
                self.out += struct.pack("<dd", o.real, o.imag)
            else:
                self.textfloat = True
                self.tb("x", fl)
                for part in (o.real, o.imag):
                    s = repr(part).encode("ascii")
                    self.out.append(len(s))
                    self.out += s
            return
        if t is bytes:  # py3 bytes / py2 str
            forms = ["s"]
            if PY2:
                forms.append("t")
            form = self.choose("bytes", forms)
            fl = self.flag_for(o, "bytes")
            if form == "t":
                self.interned[id(o)] = len(self.interned)
            self.tb(form, fl)
            self.i32(len(o))
            self.out += o
            return
        if t is text_type:
            try:
                raw = o.encode("utf-8") if PY2 else o.encode("utf-8", "surrogatepass")
            except UnicodeError:
                raw = o.encode("utf-8", "replace")
            forms = ["u"]
            if not PY2:
                forms.append("t")
                is_ascii = all(ord(c) < 128 for c in o)
                if HAS_REF and is_ascii:
                    forms += ["a", "A"]
                    if len(raw) < 256:
                        forms += ["z", "Z"]
            form = self.choose("text", forms)
            fl = self.flag_for(o, "text")
            self.tb(form, fl)
            if form in ("z", "Z"):
                self.out.append(len(raw))
            else:
                self.i32(len(raw))
            self.out += raw
            return
        if t is tuple:
            forms = ["("]
            if HAS_REF and len(o) < 256:
                forms.append(")")
            form = self.choose("tuple", forms)
            fl = self.flag_for(o, "tuple")
            self.tb(form, fl)
            if form == ")":
                self.out.append(len(o))
            else:
                self.i32(len(o))
            for e in o:
                self.w(e)
            return
        if t is list:
            fl = self.flag_for(o, "list")
            self.tb("[", fl)
            self.i32(len(o))
            for e in o:
                self.w(e)
            return
        if t is set or t is frozenset:
            fl = self.flag_for(o, "set")
            self.tb("<" if t is set else ">", fl)
            self.i32(len(o))
            for e in o:
                self.w(e)
            return
        if t is dict:
            fl = self.flag_for(o, "dict")
            self.tb("{", fl)
            for k, v in o.items():
                self.w(k)
                self.w(v)
            self.tb("0")
            return
        if t is types.CodeType:
            fl = self.flag_for(o, "code")
            self.w_code(o, o.co_consts, fl)
            return
        raise TypeError(t)

    def w_plain_bytes(self, b_):
        self.tb("s")
        self.i32(len(b_))
        self.out += b_

    def w_plain(self, o):
        """canonical, choice-free encoding for the non-constant fields"""
        sub = Writer({})
        sub.choose = lambda key, options: options[0]
        sub.w(o)
        self.out += sub.out

    def w_field(self, o):
        """a non-constant field: choice-free by default; in `shared_fields` mode it goes through the same
        writer as the constants, so that the intern table (py2 't'/'R') and the reference table (3.4+
        FLAG_REF/'r') are shared between fields and constants as in the interpreter's own writer"""
        if not getattr(self, "shared_fields", False):
            return self.w_plain(o)
        self.w(o)

    def w_field_bytes(self, b_):
        if not getattr(self, "shared_fields", False):
            return self.w_plain_bytes(b_)
        self.w(b_)

    def w_code(self, co, consts, flag=False):
        self.tb("c", flag)
        self.i32(co.co_argcount)
        if VER >= (3, 8):
            self.i32(co.co_posonlyargcount)
        if not PY2:
            self.i32(co.co_kwonlyargcount)
        if VER < (3, 11):
            self.i32(co.co_nlocals)
        self.i32(co.co_stacksize)
        self.i32(co.co_flags)
        self.w_field_bytes(co.co_code)
        # the constants: the only part with encoding choices
        self.w(consts)
        self.w_field(co.co_names)
        if VER >= (3, 11):
            names = tuple(co.co_varnames) + tuple(n for n in co.co_cellvars if n not in co.co_varnames) + tuple(co.co_freevars)
            kinds = bytearray()
            for n in names:
                k = 0
                if n in co.co_varnames:
                    k |= 0x20
                if n in co.co_cellvars:
                    k |= 0x40
                if n in co.co_freevars:
                    k |= 0x80
                kinds.append(k)
            self.w_field(names)
            self.w_plain_bytes(bytes(kinds))
        else:
            self.w_field(co.co_varnames)
            self.w_field(co.co_freevars)
            self.w_field(co.co_cellvars)
        self.w_field(co.co_filename)
        self.w_field(co.co_name)
        if VER >= (3, 11):
            self.w_field(co.co_qualname)
        self.i32(co.co_firstlineno)
        if VER >= (3, 10):
            self.w_field_bytes(co.co_linetable)
        else:
            self.w_field_bytes(co.co_lnotab)
        if VER >= (3, 11):
            self.w_field_bytes(co.co_exceptiontable)


def run(R, out, tier="quick"):
    thorough = tier == "thorough"
    depth = 3 if thorough else 2
    maxdev = 2 if thorough else 1
    ns = {}
    exec(compile("def nested():\n    return 1\nx = nested\n", "<consts>", "exec"), ns)
    template = compile("x = 1\n", "<consts>", "exec")
    nested = ns["nested"].__code__
    vals = values(depth)
    # code objects as constants, shared between siblings and between nested code objects
    vals.append(("code1", nested))
    vals.append(("code_shared", (nested, nested)))
    big = tuple(range(300))
    inner2 = R.mkcode(nested, co_consts=(None, big))
    vals.append(("shared_across_code", (inner2, big, R.mkcode(nested, co_consts=(big, 1)))))
    # fields sharing the intern / reference tables with the constants (the interpreter's own writer does this:
    # '' is a singleton, names are interned): an earlier code object's empty line table, code string, name,
    # file name or names tuple is the *first* occurrence and the constant the back-reference
    empty = nested.co_name[:0] if PY2 else b""
    if PY2:
        lam = R.mkcode(nested, co_lnotab=empty)
    elif VER >= (3, 10):
        lam = R.mkcode(nested, co_linetable=empty)
    else:
        lam = R.mkcode(nested, co_lnotab=empty)
    shared_vals = [("fs_lnotab_then_empty", (lam, empty)), ("fs_empty_then_lnotab", (empty, lam)),
                   ("fs_name_const", (nested, nested.co_name, template.co_names[0])),
                   ("fs_names_tuple", (template.co_names, nested.co_names, nested)),
                   ("fs_filename", (template.co_filename, nested)),
                   ("fs_code_string", (nested, nested.co_code, nested.co_code)),
                   ("fs_text_and_bytes_empty", (lam, empty, u(""), (empty, u("")))),
                   ("fs_two_codes", (lam, R.mkcode(lam, co_name=nested.co_filename), empty, nested.co_filename))]
    shared_tags = set(t_ for t_, _ in shared_vals)
    vals += shared_vals
    # containers that contain themselves (expressible from 3.4 on, through FLAG_REF on the mutable container): only this
    # interpreter's own writer produces them here (the assembler would not terminate on a cyclic value)
    cyclic_tags = set()
    if HAS_REF:
        c1 = [1]
        c1.append(c1)
        c2 = {}
        c2["self"] = c2
        c3 = []
        c3.append((c3, 1))
        c4 = [[], {}]
        c4[0].append(c4)
        c4[1]["up"] = c4[0]
        c5 = {"l": []}
        c5["l"].append(c5)
        for tg, cv in (("cyc_list", c1), ("cyc_dict", c2), ("cyc_list_via_tuple", c3), ("cyc_two_levels", c4), ("cyc_dict_list", c5),
                       ("cyc_twice", (c1, c1, [c1]))):
            vals.append((tg, cv))
            cyclic_tags.add(tg)
    stats = {"values": len(vals), "real_writer": 0, "assembled": 0, "rejected_by_reader": 0, "capped": 0}
    seen = set()

    def emit(tag, payload, how, textfloat):
        payload = bytes(payload)
        if payload in seen:
            return
        seen.add(payload)
        try:
            obj = marshal.loads(payload)
            tree = R.C.canon(obj)
        except Exception:
            stats["rejected_by_reader"] += 1
            return
        out.put({"id": "%s|%s" % (tag, how), "ver": list(VER), "payload": R.C.hx(payload), "tree": tree, "how": how,
                 "textfloat": textfloat})

    versions = (0, 1, 2) if PY2 else (0, 1, 2, 3, 4)
    for tag, v in vals:
        code = R.mkcode(template, co_consts=(v,))
        for mv in versions:
            if tag in cyclic_tags and mv < 3:
                continue    # without references the writer walks a cyclic value until its depth limit (exponential for two branches)
            try:
                emit(tag, marshal.dumps(code, mv), "dumps-v%d" % mv, mv < 2)
                stats["real_writer"] += 1
            except ValueError:
                pass
        if tag in cyclic_tags:
            continue
        # assembler: canonical + deviations
        budget = [400 if not thorough else 3000]

        def explore(ov, last):
            if budget[0] <= 0:
                stats["capped"] += 1
                return
            budget[0] -= 1
            w = Writer(ov)
            w.shared_fields = tag in shared_tags
            w.w_code(template, (v,))
            emit(tag, w.out, "asm:" + ",".join("%d=%s" % (k, w.points[k][1][a]) for k, a in sorted(ov.items())), w.textfloat)
            stats["assembled"] += 1
            if len(ov) >= maxdev:
                # quick tier: one extra, *adjacent* deviation - an alternative type code together with FLAG_REF on the
                # same node (the two choice points of one object), so that every type code is also seen flagged
                if len(ov) == 1 and maxdev == 1 and last + 1 < len(w.points) and w.points[last + 1][0].startswith("flag:") \
                        and not w.points[last][0].startswith(("flag:", "useref", "useR")):
                    ov2 = dict(ov)
                    ov2[last + 1] = 1
                    explore(ov2, last + 1)
                return
            for j in range(last + 1, len(w.points)):
                # very wide containers have hundreds of identical points: deviate on the first 12 and the last 3
                if j - (last + 1) >= 12 and j < len(w.points) - 3:
                    continue
                for a in range(1, len(w.points[j][1])):
                    ov2 = dict(ov)
                    ov2[j] = a
                    explore(ov2, j)

        explore({}, -1)
    out.put({"id": "__meta__", "stats": stats})
