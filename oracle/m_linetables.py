# -*- coding: utf-8 -*-
# E-fmt for line tables (C05, C17): tables installed in a real code object of
# this interpreter; ground truth = dis.findlinestarts / co_lines / co_positions.
from __future__ import print_function

import dis
import itertools
import marshal
import sys

PY2 = sys.version_info[0] == 2
VER = sys.version_info[:2]


def b(lst):
    return bytes(bytearray(lst))


def varint(n):
    out = []
    while n >= 64:
        out.append(64 | (n & 63))
        n >>= 6
    out.append(n)
    return out


def svarint(x):
    return varint(((-x) << 1) | 1) if x < 0 else varint(x << 1)


def entry311(code, length, payload):
    return [0x80 | (code << 3) | (length - 1)] + payload


def delta311(tag, code):
    if code in (10, 11, 12):
        return code - 10
    if code in (13, 14):
        return int(tag.split(":")[1].split(",")[0])
    return 0


def atoms311():
    """(tag, code, payload-bytes) for the 3.11+ location table"""
    out = []
    for c in range(0, 10):
        for x in (0x00, 0x35, 0x7F):
            out.append(("short%d:%02x" % (c, x), c, [x]))
    for c in (10, 11, 12):
        for x, y in ((0, 0), (0, 127), (127, 127), (5, 9)):
            out.append(("oneline%d:%d,%d" % (c - 10, x, y), c, [x, y]))
    sv = [0, 1, -1, 31, 32, -32, 2047, 2048, -2048, 100000]
    for d in sv:
        out.append(("nocol:%d" % d, 13, svarint(d)))
    for d in sv:
        for eld in (0, 64):
            for col in (0, 1, 4097):
                for ecol in (0, 65):
                    out.append(("long:%d,%d,%d,%d" % (d, eld, col, ecol), 14, svarint(d) + varint(eld) + varint(col) + varint(ecol)))
    out.append(("none", 15, []))
    return out


def run(R, out, tier="quick"):
    import opcode

    thorough = tier == "thorough"
    NOP = opcode.opmap["NOP"]
    unit = 2 if VER >= (3, 6) else 1
    ns = {}
    exec(compile("def base():\n    return 1\n", "<lt>", "exec"), ns)
    base = ns["base"].__code__
    n_out = [0]
    seen = set()

    def emit(tag, table, firstlineno, codelen, deltas=()):
        # well-formed: no line number ever drops below 1 (CPython reports negative lines as None)
        run_ = firstlineno
        for d_ in deltas:
            run_ += d_
            if run_ < 1:
                return
        key = (table, firstlineno, codelen)
        if key in seen:
            return
        seen.add(key)
        code = b([NOP, 0] * (codelen // 2)) if unit == 2 else b([NOP] * codelen)
        kw = {"co_code": code, "co_firstlineno": firstlineno, "co_lnotab": table}
        if VER >= (3, 11):
            kw["co_exceptiontable"] = b([])
        try:
            co = R.mkcode(base, **kw)
            rec = {"id": "lt:%d" % len(seen), "tag": tag, "ver": list(VER), "table": R.C.hx(table), "firstlineno": firstlineno,
                   "codelen": codelen, "payload": R.C.hx(marshal.dumps(co)),
                   "linestarts": [[x, y] for x, y in dis.findlinestarts(co)]}
            if VER >= (3, 10):
                rec["colines"] = [list(x) for x in co.co_lines()]
            if VER >= (3, 11):
                rec["positions"] = [list(x) for x in co.co_positions()]
        except Exception as e:
            n_out[0] += 1
            return
        out.put(rec)

    if VER < (3, 10):
        cut = VER in ((3, 8), (3, 9))
        B = [0, 1, 2, 127, 128, 129, 254, 255]
        if PY2:
            B = B + [0xC3, 0xA9, 0xE2, 0x82, 0xAC]

        def lens(table):
            total = sum(bytearray(table)[0::2])
            total += total % unit
            L = [total + 2 * unit]
            if cut:
                L += [max(unit, total), max(unit, (total // 2) - (total // 2) % unit)]
            return L

        # all single pairs
        for od in range(0, 256, unit):
            for ld in range(256):
                t = b([od, ld])
                for L in lens(t)[:1] if not thorough else lens(t):
                    emit("1:%d,%d" % (od, ld), t, 1, L)
        emit("empty", b([]), 7, 4 * unit)
        pairs = [(x, y) for x in B for y in B]
        if not PY2:
            pairs = [(x - x % unit, y) for (x, y) in pairs]
        maxn = 3 if thorough else 2
        for n in range(2, maxn + 1):
            for combo in itertools.product(pairs, repeat=n):
                t = b([v for p in combo for v in p])
                for fl in (1, 1000):
                    for L in lens(t):
                        emit("%d:%s" % (n, combo), t, fl, L)
    elif VER == (3, 10):
        S = [0, 2, 4, 254]
        Ld = [-128, -127, -1, 0, 1, 127]
        atoms = [(s, l) for s in S for l in Ld]
        # every single (sdelta, ldelta)
        # a 3.10 table is well-formed when its ranges cover the code exactly: code length = sum of sdeltas
        # and no line number is negative (CPython reports those as None), and it does not end in an empty range
        for s in range(2, 256, 2):
            for l in range(-128, 128):
                emit("1:%d,%d" % (s, l), b([s, l & 255]), 200, s)
        maxn = 3
        for n in range(2, maxn + 1):
            for combo in itertools.product(atoms, repeat=n):
                t = b([v & 255 for p in combo for v in p])
                total = sum(p[0] for p in combo)
                if total == 0 or combo[-1][0] == 0:
                    continue
                for fl in ((400, 1000) if n < 3 or thorough else (1000,)):
                    emit("%d:%s" % (n, combo), t, fl, total)
    else:
        A = atoms311()
        lengths = (1, 2, 8)
        for (tag, c, pl) in A:
            for ln in lengths:
                for fl in (1, 1000):
                    emit("1:%s*%d" % (tag, ln), b(entry311(c, ln, pl)), fl, ln * 2, [delta311(tag, c)])
                emit("1:%s*%d" % (tag, ln), b(entry311(c, ln, pl)), 300000, ln * 2, [delta311(tag, c)])
        # pairs over a reduced alphabet, triples over a smaller one
        def pick(names):
            return [a for a in A if a[0] in names]
        A2 = pick(["short0:00", "short5:35", "short9:7f", "oneline0:0,0", "oneline1:5,9", "oneline2:127,127", "nocol:0", "nocol:1", "nocol:-1",
                   "nocol:32", "nocol:-32", "nocol:2048", "nocol:-2048", "long:0,0,0,0", "long:1,64,1,65", "long:-1,0,4097,0",
                   "long:-32,64,4097,65", "long:2048,0,1,0", "long:100000,0,0,0", "none"])
        A3 = pick(["short0:00", "oneline1:5,9", "nocol:1", "nocol:-1", "nocol:-32", "long:1,64,1,65", "long:-1,0,4097,0", "long:2048,0,1,0", "none"])
        for a1 in A2:
            for a2 in A2:
                for l1 in lengths:
                    for l2 in ((1, 8) if not thorough else lengths):
                        emit("2:%s*%d,%s*%d" % (a1[0], l1, a2[0], l2), b(entry311(a1[1], l1, a1[2]) + entry311(a2[1], l2, a2[2])), 5000, (l1 + l2) * 2,
                             [delta311(a1[0], a1[1]), delta311(a2[0], a2[1])])
        for combo in itertools.product(A3, repeat=3):
            for ls in (((1, 1, 1), (2, 8, 1)) if not thorough else itertools.product(lengths, repeat=3)):
                t = []
                for a, l in zip(combo, ls):
                    t += entry311(a[1], l, a[2])
                emit("3:%s" % ",".join("%s*%d" % (a[0], l) for a, l in zip(combo, ls)), b(t), 5000, sum(ls) * 2,
                     [delta311(a[0], a[1]) for a in combo])
    out.put({"id": "__meta__", "tables": len(seen), "rejected_by_interpreter": n_out[0]})
