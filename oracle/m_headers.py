# -*- coding: utf-8 -*-
# real pyc headers written by this interpreter's py_compile in every
# invalidation mode, and _classify_pyc's verdict on flag words (M-hdr conformance)
from __future__ import print_function

import os
import py_compile
import shutil
import struct
import sys
import tempfile

VER = sys.version_info[:2]


def run(R, out):
    d = tempfile.mkdtemp(prefix="verif-hdr-")
    try:
        src = os.path.join(d, "m.py")
        with open(src, "w") as f:
            f.write("x = 1\ny = (2, 'three', 4.5)\ndef f(a):\n    return a + 1\n")
        os.utime(src, (1600000000, 1600000000))
        size = os.path.getsize(src)
        modes = [None]
        if VER >= (3, 7):
            modes = [py_compile.PycInvalidationMode.TIMESTAMP, py_compile.PycInvalidationMode.CHECKED_HASH,
                     py_compile.PycInvalidationMode.UNCHECKED_HASH]
        for m in modes:
            dst = os.path.join(d, "m-%s.pyc" % (m.name if m else "ts"))
            if m is None:
                py_compile.compile(src, dst, doraise=True)
            else:
                py_compile.compile(src, dst, doraise=True, invalidation_mode=m)
            with open(dst, "rb") as f:
                data = f.read()
            rec = {"id": "real:%s" % (m.name if m else "ts"), "ver": list(VER), "pyc": R.C.hx(data), "mtime": 1600000000,
                   "size": size, "mode": m.name if m else "TIMESTAMP"}
            if m is not None and m.name != "TIMESTAMP":
                import importlib.util

                with open(src, "rb") as f:
                    rec["hash"] = R.C.hx(importlib.util.source_hash(f.read()))
            out.put(rec)
        if VER >= (3, 7):
            from importlib import _bootstrap_external as be

            for fb in range(4):
                for val in (0, 1, 2, 3, 4, 0x80, 0xFF):
                    word = val << (8 * fb)
                    data = R.MAGIC + struct.pack("<I", word) + b"\0" * 8
                    try:
                        flags = be._classify_pyc(data, "m", {})
                        out.put({"id": "classify:%d" % word, "ver": list(VER), "word": word, "accepted": True, "flags": flags})
                    except ImportError:
                        out.put({"id": "classify:%d" % word, "ver": list(VER), "word": word, "accepted": False})
    finally:
        shutil.rmtree(d, ignore_errors=True)
    out.put({"id": "__meta__"})
