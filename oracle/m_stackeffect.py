# -*- coding: utf-8 -*-
# ground truth for C15: dis.stack_effect of this interpreter
from __future__ import print_function

import dis
import sys

VER = sys.version_info[:2]


def run(R, out, tier="quick"):
    if not hasattr(dis, "stack_effect"):
        out.put({"id": "__meta__", "n": 0})
        return
    import opcode

    args = set(range(0, 259))
    for k in range(8, 32):
        args.update([2 ** k - 1, 2 ** k, 2 ** k + 1])
    # CPython computes effects in C ints: keep operands whose effect (up to 2*oparg) cannot overflow 32 bits
    args = sorted(a for a in args if a <= 2 ** 30)
    n = 0
    if VER >= (3, 12):
        hasarg = set(opcode.hasarg)
    else:
        hasarg = set(o for o in opcode.opmap.values() if o >= opcode.HAVE_ARGUMENT)
    for name, op in sorted(opcode.opmap.items()):
        if op >= 256 or name.startswith("INSTRUMENTED_") or name in ("ENTER_EXECUTOR", "RESERVED"):
            continue
        rec = {"id": "se:%s" % name, "ver": list(VER), "opname": name, "opcode": op, "takes_arg": op in hasarg}
        if op not in hasarg:
            try:
                rec["noarg"] = dis.stack_effect(op)
            except ValueError:
                rec["noarg"] = None
            out.put(rec)
            n += 1
            continue
        pairs = []
        vals = set()
        for a in args:
            try:
                e = dis.stack_effect(op, a)
            except (ValueError, OverflowError):
                e = None
            pairs.append([a, e])
            vals.add(e)
        if tier == "thorough" and len(vals) > 1:
            pairs = []
            for a in range(0, 65536):
                try:
                    e = dis.stack_effect(op, a)
                except (ValueError, OverflowError):
                    e = None
                pairs.append([a, e])
        rec["pairs"] = pairs
        out.put(rec)
        n += 1
    out.put({"id": "__meta__", "n": n})
