# -*- coding: utf-8 -*-
# interactive / batch oracle: JSON lines on stdin, one JSON line per request on stdout
from __future__ import print_function

import dis
import json
import marshal
import sys

PY2 = sys.version_info[0] == 2
VER = sys.version_info[:2]


def serve(R):
    import opcode

    ns = {}
    exec(compile("def base():\n    return 1\n", "<srv>", "exec"), ns)
    base = ns["base"].__code__
    NOP = opcode.opmap["NOP"]
    unit = 2 if VER >= (3, 6) else 1
    inp = sys.stdin
    out = sys.stdout
    for line in inp:
        line = line.strip()
        if not line:
            continue
        req = json.loads(line)
        try:
            if req["op"] == "linestarts":
                table = R.C.unhx(req["table"])
                n = req["codelen"]
                code = bytes(bytearray([NOP, 0] * max(1, n // 2))) if unit == 2 else bytes(bytearray([NOP] * n))
                co = R.mkcode(base, co_code=code, co_firstlineno=req["firstlineno"], co_lnotab=table)
                res = {"linestarts": [[a, b] for a, b in dis.findlinestarts(co)]}
                if VER >= (3, 10):
                    res["colines"] = [list(x) for x in co.co_lines()]
            elif req["op"] == "loads":
                obj = marshal.loads(R.C.unhx(req["payload"]))
                res = {"tree": R.C.canon(obj)}
            else:
                res = {"error": "unknown op"}
        except Exception as e:
            res = {"error": "%s: %s" % (type(e).__name__, e)}
        out.write(json.dumps(res) + "\n")
        out.flush()
    return 0
