# -*- coding: utf-8 -*-
# E-fmt for raw co_code: synthetic instruction streams decoded by this
# interpreter's own dis (C02, C03, C04).  2.7 / 3.6+ common subset.
from __future__ import print_function

import dis
import io
import marshal
import sys

PY2 = sys.version_info[0] == 2
VER = sys.version_info[:2]

BASE_SRC = (
    "def outer(fa, fb):\n"
    "    fc = fa\n"
    "    def base(la, lb, lc=1):\n"
    "        ld = (la, fa, fc)\n"
    "        def inner():\n"
    "            return (lb, ld)\n"
    "        return (gn0.a1, gn2, gn3.a4.a5, 'k1', 2, 3.5, (4, 5), None, b'k6', la, lb, lc, ld, fa, fc, inner)\n"
    "    return base\n"
)


def b(lst):
    return bytes(bytearray(lst))


def enc(op, arg, P, ext_always=0):
    """bytes of one instruction with operand `arg` (None = no operand), with the
    EXTENDED_ARG prefixes it needs (plus `ext_always` redundant zero prefixes),
    followed by its zeroed inline caches"""
    out = []
    if P["wordcode"]:
        if arg is None:
            out += [op, 0]
        else:
            units = []
            a = arg
            while True:
                units.append(a & 0xFF)
                a >>= 8
                if not a:
                    break
            units += [0] * ext_always
            for u in reversed(units[1:]):
                out += [P["ext"], u]
            out += [op, units[0]]
        out += [0, 0] * P["caches"].get(op, 0)
    else:
        if arg is None:
            out += [op]
        else:
            hi = arg >> 16
            if hi or ext_always:
                out += [P["ext"], hi & 0xFF, (hi >> 8) & 0xFF]
            out += [op, arg & 0xFF, (arg >> 8) & 0xFF]
    return out


def run(R, out):
    import opcode

    P = R.P_native(R.opcode_params())
    opmap = dict((n, o) for n, o in opcode.opmap.items() if o < 256 and not n.startswith("INSTRUMENTED_"))
    if VER >= (3, 12):
        hasarg = set(opcode.hasarg)
    else:
        hasarg = set(o for o in opmap.values() if o >= opcode.HAVE_ARGUMENT)
    NOP = opmap["NOP"]
    jumps = sorted(set(o for o in (list(opcode.hasjrel) + list(opcode.hasjabs)) if o < 256 and o in opmap.values()))
    ns = {}
    exec(compile(BASE_SRC, "<base>", "exec"), ns)
    base = ns["outer"](1, 2).__code__
    # a wide-table variant so that table-indexed operands up to 299 are accepted by dis
    big_consts = tuple(range(1000, 1300))
    big_names = tuple("n%d" % i for i in range(300))

    def widen(co):
        kw = dict(co_consts=big_consts, co_names=big_names)
        return R.mkcode(co, **kw)

    wide = widen(base)
    unsafe = set(o for n, o in opcode.opmap.items() if n in ("ENTER_EXECUTOR", "RESERVED") or n.startswith("INSTRUMENTED_"))
    seen = set()
    stats = {"streams": 0, "dis_rejected": 0}

    def emit(kind, code_bytes, tag):
        if code_bytes in seen:
            return
        seen.add(code_bytes)
        rec = {"id": "%s:%d" % (kind, len(seen)), "kind": kind, "tag": tag, "ver": list(VER), "code": R.C.hx(code_bytes)}
        if PY2:
            co = R.mkcode(wide, co_code=code_bytes)
            try:
                txt = R.dis27_text(co)
            except Exception:
                stats["dis_rejected"] += 1
                return
            raw = R.M.mdis(code_bytes, P)
            if [(o, opcode.opname[op], a) for (o, op, a, nc) in raw] != [(o, n, a) for (o, n, a, t_, l_) in txt]:
                rec["mdis_mismatch"] = True
            rec["ops"] = [[o, opcode.opmap[n], a] for (o, n, a, t_, l_) in txt]
            rec["labels"] = list(dis.findlabels(code_bytes))
            # 2.7's findlabels ignores EXTENDED_ARG (DESIGN 3.3): the reference for targets is what
            # dis.disassemble prints / M-dis, which is where the interpreter goes
            rec["targets"] = [[o, R.M.mtarget(o, op, a, P)] for (o, op, a, nc) in raw if R.M.mtarget(o, op, a, P) is not None]
            rec["accepted"] = not rec.get("mdis_mismatch")
        else:
            try:
                rec["ops"] = [[t_[0], t_[-2], t_[-1]] for t_ in dis._unpack_opargs(code_bytes)]
                rec["labels"] = list(dis.findlabels(code_bytes))
            except Exception:
                stats["dis_rejected"] += 1
                return
            try:
                # ENTER_EXECUTOR in a hand-made code object makes CPython 3.13 itself crash (it indexes the
                # executor array); such streams get the byte-level reference only
                if any(t_[1] in unsafe for t_ in rec["ops"]):
                    raise ValueError("unsafe opcode for a real code object")
                co = R.mkcode(wide, co_code=code_bytes)
                ins = R.insts_record(co, with_argval=True)
                rec["targets"] = [[i[0], i[4][1]] for i in ins if i[1] in P["jrel"] or i[1] in P["jabs"]]
                rec["jump_target_flags"] = [i[0] for i in ins if i[5]]
                rec["accepted"] = True
            except Exception:
                rec["targets"] = None
                rec["accepted"] = False
        stats["streams"] += 1
        out.put(rec)

    # A. every defined opcode x {0, 1, 255} as a single instruction
    for name, op in sorted(opmap.items()):
        for a in (0, 1, 255):
            if op in hasarg:
                emit("stream", b(enc(op, a, P)), "A:%s:%d" % (name, a))
            else:
                emit("stream", b(enc(op, None, P)), "A:%s" % name)
    # B. every operand-taking opcode x boundary operands with the EXTENDED_ARG prefixes needed
    bops = [0, 1, 255, 256, 65535, 65536, 2 ** 24 - 1, 2 ** 24, 2 ** 31 - 1, 2 ** 31, 2 ** 32 - 1]
    for name, op in sorted(opmap.items()):
        if op not in hasarg or op == P["ext"]:
            continue
        for a in bops:
            emit("stream", b(enc(op, a, P)), "B:%s:%d" % (name, a))
        emit("stream", b(enc(op, 5, P, ext_always=1)), "B:%s:redundant-ext" % name)
    # C. all sequences of length <= 3 over the instruction classes x operands
    classes = [("noarg", NOP, None)]
    arg_op = opmap["LOAD_CONST"]
    rel = opmap["JUMP_FORWARD"]
    ab = opmap.get("JUMP_ABSOLUTE", opmap.get("JUMP_BACKWARD"))
    for a in (0, 1, 255):
        classes.append(("arg%d" % a, arg_op, a))
        classes.append(("ext%d" % a, P["ext"], a))
        classes.append(("rel%d" % a, rel, a))
        classes.append(("abs%d" % a, ab, a))
        if P["caches"]:
            classes.append(("cache%d" % a, opmap["LOAD_GLOBAL"], a))

    def raw1(op, a):
        # an EXTENDED_ARG written as an ordinary instruction (operand in one unit)
        if a is None:
            return [op, 0] if P["wordcode"] else [op]
        if P["wordcode"]:
            return [op, a & 0xFF] + [0, 0] * (0 if op == P["ext"] else P["caches"].get(op, 0))
        return [op, a & 0xFF, a >> 8]

    for c1 in classes:
        emit("stream", b(raw1(c1[1], c1[2])), "C:%s" % c1[0])
        for c2 in classes:
            emit("stream", b(raw1(c1[1], c1[2]) + raw1(c2[1], c2[2])), "C:%s,%s" % (c1[0], c2[0]))
            for c3 in classes:
                emit("stream", b(raw1(c1[1], c1[2]) + raw1(c2[1], c2[2]) + raw1(c3[1], c3[2])),
                     "C:%s,%s,%s" % (c1[0], c2[0], c3[0]))
    # D. every jump opcode x operands x filler counts (targets beyond 255, room for backward jumps)
    jops = [0, 1, 2, 3, 127, 128, 255, 256, 300, 65535, 65536]
    names = dict((o, n) for n, o in opmap.items())
    for op in jumps:
        for a in jops:
            for k in (0, 1, 3, 130, 200):
                body = enc(NOP, None, P) * k + enc(op, a, P) + enc(NOP, None, P) * 3
                emit("jump", b(body), "D:%s:%d:%d" % (names[op], a, k))
    # E. two jumps: de-duplication and order of the label list
    for op1 in jumps:
        for op2 in jumps:
            for a1 in (0, 2, 300):
                for a2 in (0, 2, 300):
                    body = enc(NOP, None, P) * 3 + enc(op1, a1, P) + enc(op2, a2, P) + enc(NOP, None, P) * 3
                    emit("jump", b(body), "E:%s:%d,%s:%d" % (names[op1], a1, names[op2], a2))

    # F. operand resolution: every table-indexed opcode x every operand dis accepts on the closure-bearing base
    cats = {}
    for cat in ("hasconst", "hasname", "haslocal", "hasfree", "hascompare"):
        for op in getattr(opcode, cat, ()):
            if op < 256 and op in names:
                cats.setdefault(op, cat)
    if VER >= (3, 13):
        for n in ("LOAD_FAST_LOAD_FAST", "STORE_FAST_LOAD_FAST", "STORE_FAST_STORE_FAST"):
            cats.setdefault(opmap[n], "haslocal")
    n_res = 0
    for op, cat in sorted(cats.items()):
        good = []
        for a in range(0, 260):
            try:
                co = R.mkcode(base, co_code=b(enc(op, a, P)))
                ir = R.insts_record(co)
                if ir[-1 if not P["caches"] else [k for k, x in enumerate(ir) if x[1] == op][-1]][4][0] == "r":
                    continue  # dis itself does not resolve this operand (e.g. 3.11 KW_NAMES -> UNKNOWN)
                good.append(a)
            except Exception:
                pass
        if not good:
            continue
        body = []
        for a in good:
            body += enc(op, a, P)
        co = R.mkcode(base, co_code=b(body))
        try:
            ins = R.insts_record(co)
        except Exception:
            stats["dis_rejected"] += 1
            continue
        n_res += 1
        out.put({"id": "resolve:%s" % names[op], "kind": "resolve", "tag": "F:%s:%s" % (names[op], cat), "ver": list(VER),
                 "payload": R.C.hx(marshal.dumps(co)), "operands": good, "insts": ins,
                 "cat": cat, "opname": names[op]})
    stats["resolve_streams"] = n_res
    out.put({"id": "__meta__", "stats": stats, "P": R.opcode_params()})
