# -*- coding: utf-8 -*-
# ground truth: the interpreter's own opcode module
import sys


def run(R, out):
    import opcode

    rec = {
        "id": "opcodes", "ver": list(sys.version_info[:2]),
        "opmap": dict(opcode.opmap), "opname": list(opcode.opname),
        "HAVE_ARGUMENT": opcode.HAVE_ARGUMENT, "EXTENDED_ARG": opcode.EXTENDED_ARG,
        "cmp_op": list(opcode.cmp_op), "magic": R.C.hx(R.MAGIC), "version_info": list(sys.version_info),
    }
    for cat in ("hasjrel", "hasjabs", "hasconst", "hasname", "haslocal", "hasfree", "hascompare", "hasarg", "hasexc"):
        if hasattr(opcode, cat):
            rec[cat] = sorted(getattr(opcode, cat))
    rec["P"] = R.opcode_params()
    out.put(rec)
    out.put({"id": "__meta__"})
