# -*- coding: utf-8 -*-
# Oracle farm: runs under each of the nine reference interpreters (2.7 / 3.6+
# common subset) and writes ground truth as gzip'ed JSON lines.
#   ref_main.py <mode> <out.jsonl.gz> [args...]
# Ground truth depends only on gen/*.py, this file and the interpreter binary.
from __future__ import print_function

import dis
import gzip
import io
import json
import marshal
import os
import re
import struct
import sys
import types

HERE = os.path.dirname(os.path.abspath(__file__))
sys.path.insert(0, os.path.dirname(HERE))

from gen import canon as C  # noqa: E402
from gen import mdis as M  # noqa: E402

PY2 = sys.version_info[0] == 2
VER = sys.version_info[:2]

if PY2:
    import imp

    MAGIC = imp.get_magic()
else:
    import importlib.util

    MAGIC = importlib.util.MAGIC_NUMBER


# ------------------------------------------------------------------ helpers
def pyc_header(ts=0x5F000000, size=0x1234, flags=0, hash8=None):
    if VER >= (3, 7):
        if flags & 1:
            return MAGIC + struct.pack("<I", flags) + (hash8 or b"\x01\x02\x03\x04\x05\x06\x07\x08")
        return MAGIC + struct.pack("<III", flags, ts, size)
    if VER >= (3, 3):
        return MAGIC + struct.pack("<II", ts, size)
    return MAGIC + struct.pack("<I", ts)


def opcode_params():
    import opcode

    P = {
        "wordcode": VER >= (3, 6),
        "have_arg": opcode.HAVE_ARGUMENT,
        "ext": opcode.EXTENDED_ARG,
        "jrel": sorted(opcode.hasjrel),
        "jabs": sorted(opcode.hasjabs),
        "scale": 2 if VER >= (3, 10) else 1,
        "backward": [],
        "caches": {},
    }
    for cat in ("hasconst", "hasname", "haslocal", "hasfree", "hascompare"):
        P[cat] = sorted(o for o in getattr(opcode, cat, ()) if o < 256)
    P["ncmp"] = len(opcode.cmp_op)
    if VER >= (3, 11):
        P["backward"] = sorted(op for name, op in opcode.opmap.items() if "JUMP_BACKWARD" in name and op < 256)
        ice = opcode._inline_cache_entries
        if isinstance(ice, dict):
            P["caches"] = dict((str(opcode.opmap[k]), v) for k, v in ice.items() if v)
        else:
            P["caches"] = dict((str(i), v) for i, v in enumerate(ice) if v)
    return P


def P_native(P):
    Q = dict(P)
    Q["jrel"] = set(P["jrel"])
    Q["jabs"] = set(P["jabs"])
    Q["backward"] = set(P["backward"])
    Q["caches"] = dict((int(k), v) for k, v in P["caches"].items())
    return Q


def argval_canon(v):
    if isinstance(v, bool) or v is None:
        return ["c", C.canon(v)]
    if isinstance(v, (int, C.long_type)):
        # a JSON number with thousands of digits cannot be read back on a host with the int-to-str digit limit
        return ["i", int(v)] if -10 ** 18 < v < 10 ** 18 else ["I", C.istr(v)]
    if isinstance(v, types.CodeType):
        return ["code", v.co_name]
    if isinstance(v, C.text_type) or (PY2 and isinstance(v, str)):
        try:
            return ["s", v if not PY2 or isinstance(v, C.text_type) else v.decode("latin-1")]
        except Exception:
            return ["s", repr(v)]
    if isinstance(v, tuple) and v and all(isinstance(e, C.text_type) for e in v) and VER >= (3, 13):
        return ["p", list(v)]
    try:
        return ["c", strip_code(C.canon(v))]
    except TypeError:
        return ["r", repr(v)]


def strip_code(d):
    """replace nested code trees inside an argval by a name reference"""
    if isinstance(d, dict):
        if d.get("t") == "code":
            return {"t": "coderef", "v": d["v"]["co_name"]}
        if isinstance(d.get("v"), list):
            return {"t": d["t"], "v": [strip_code(e) for e in d["v"]]}
    if isinstance(d, list):
        return [strip_code(e) for e in d]
    return d


_DIS27_RE = re.compile(r"^\s*(\d+)?\s*(-->)?\s*(>>)?\s+(\d+) ([A-Z_+0-9]+)\s*(\d+)?L?(?: \((.*)\))?\s*$")


def dis27_text(co):
    """parsed output of 2.7's dis.disassemble: [(offset, opname, arg, is_target, line)]"""
    old = sys.stdout
    buf = io.BytesIO() if PY2 else io.StringIO()
    sys.stdout = buf
    try:
        dis.disassemble(co)
    finally:
        sys.stdout = old
    out = []
    for line in buf.getvalue().splitlines():
        if not line.strip():
            continue
        m = _DIS27_RE.match(line)
        if not m:
            continue
        out.append((int(m.group(4)), m.group(5), None if m.group(6) is None else int(m.group(6)),
                    bool(m.group(3)), None if m.group(1) is None else int(m.group(1))))
    return out


def insts_record(co, with_argval=True):
    """per-instruction ground truth: [offset, opcode, opname, arg, argval, is_jump_target, starts_line]"""
    out = []
    if VER >= (3, 4):
        for i in dis.get_instructions(co):
            if VER >= (3, 13):
                sl = i.line_number if i.starts_line else None
            else:
                sl = i.starts_line
            out.append([i.offset, i.opcode, i.opname, i.arg,
                        argval_canon(i.argval) if with_argval and i.arg is not None else None,
                        bool(i.is_jump_target), sl])
        return out
    # 2.7: M-dis over the interpreter's own tables, cross-checked against the text of dis.disassemble
    import opcode

    P = P_native(opcode_params())
    labels = dis.findlabels(co.co_code)
    starts = dict(dis.findlinestarts(co))
    free = co.co_cellvars + co.co_freevars
    txt = dis27_text(co)
    raw = M.mdis(co.co_code, P)
    if [(o, opcode.opname[op], a) for (o, op, a, nc) in raw] != [(o, n, a) for (o, n, a, t_, l_) in txt]:
        raise ValueError("M-dis disagrees with dis.disassemble text")
    for (off, op, arg, nc) in raw:
        av = None
        if arg is not None and with_argval:
            if op in opcode.hasconst:
                av = argval_canon(co.co_consts[arg])
            elif op in opcode.hasname:
                av = argval_canon(co.co_names[arg])
            elif op in opcode.haslocal:
                av = argval_canon(co.co_varnames[arg])
            elif op in opcode.hasfree:
                av = argval_canon(free[arg])
            elif op in opcode.hascompare:
                av = ["s", opcode.cmp_op[arg]]
            elif op in opcode.hasjrel or op in opcode.hasjabs:
                av = ["i", M.mtarget(off, op, arg, P)]
            else:
                av = ["i", arg]
        out.append([off, op, opcode.opname[op], arg, av, off in labels, starts.get(off)])
    return out


def code_record(co, with_argval=True):
    r = {"name": co.co_name, "len": len(co.co_code)}
    r["insts"] = insts_record(co, with_argval)
    r["labels"] = list(dis.findlabels(co.co_code))
    r["linestarts"] = [[a, b] for a, b in dis.findlinestarts(co)]
    if VER >= (3, 10):
        r["colines"] = [list(x) for x in co.co_lines()]
    if VER >= (3, 11):
        r["positions"] = [list(x) for x in co.co_positions()]
        r["exc"] = [[e.start, e.end, e.target, e.depth, bool(e.lasti)] for e in dis._parse_exception_table(co)]
    return r


def mkcode(base, **kw):
    """a copy of native code object `base` with fields replaced"""
    if hasattr(base, "replace"):
        if "co_lnotab" in kw and VER >= (3, 10):
            kw["co_linetable"] = kw.pop("co_lnotab")
        return base.replace(**kw)
    g = lambda f: kw.get(f, getattr(base, f))  # noqa: E731
    if PY2:
        return types.CodeType(g("co_argcount"), g("co_nlocals"), g("co_stacksize"), g("co_flags"), g("co_code"),
                              g("co_consts"), g("co_names"), g("co_varnames"), g("co_filename"), g("co_name"),
                              g("co_firstlineno"), g("co_lnotab"), g("co_freevars"), g("co_cellvars"))
    return types.CodeType(g("co_argcount"), g("co_kwonlyargcount"), g("co_nlocals"), g("co_stacksize"),
                          g("co_flags"), g("co_code"), g("co_consts"), g("co_names"), g("co_varnames"),
                          g("co_filename"), g("co_name"), g("co_firstlineno"), g("co_lnotab"), g("co_freevars"),
                          g("co_cellvars"))


class Out(object):
    def __init__(self, path):
        self.tmp = path + ".tmp%d" % os.getpid()
        self.path = path
        self.f = gzip.open(self.tmp, "wb", 3)
        self.n = 0

    def put(self, rec):
        self.f.write((C.jdump(rec) + "\n").encode("ascii"))
        self.n += 1

    def close(self):
        self.f.close()
        os.rename(self.tmp, self.path)


# ------------------------------------------------------------------ mode: progs
def mode_progs(out, k):
    from gen import programs as G

    rejected = 0
    for (pid, src) in G.enumerate_programs(VER, int(k)):
        try:
            co = compile(src, "<%s>" % pid, "exec")
        except (SyntaxError, ValueError, OverflowError):
            rejected += 1
            continue
        payload = marshal.dumps(co)
        tree = C.canon(co)
        rec = {"id": pid, "ver": list(VER), "src": src, "pyc": C.hx(pyc_header() + payload),
               "hdrlen": len(pyc_header()), "tree": tree,
               "codes": [code_record(c) for c in C.walk_codes(co)]}
        alt = {}
        for mv in ((0, 1) if PY2 else ((2,) if VER <= (3, 7) else ())):
            pl = marshal.dumps(co, mv)
            t2 = C.canon(marshal.loads(pl))
            alt[str(mv)] = {"payload": C.hx(pl), "tree": None if t2 == tree else t2}
        if alt:
            rec["alt"] = alt
        out.put(rec)
    out.put({"id": "__meta__", "rejected": rejected, "P": opcode_params()})


MODES = {}
MODES["progs"] = mode_progs


def main(argv):
    mode = argv[1]
    path = argv[2] if len(argv) > 2 else None
    if mode == "server":
        from oracle import server

        return server.serve(sys.modules[__name__])
    if mode not in MODES:
        # modes living in sibling files (kept small and independently hashable)
        mod = __import__("oracle.m_" + mode, fromlist=["run"])
        o = Out(path)
        mod.run(sys.modules[__name__], o, *argv[3:])
        o.close()
        return 0
    o = Out(path)
    MODES[mode](o, *argv[3:])
    o.close()
    return 0


if __name__ == "__main__":
    # make this module importable as `oracle.ref_main` and `__main__` alike
    sys.modules.setdefault("oracle.ref_main", sys.modules[__name__])
    sys.exit(main(sys.argv))
