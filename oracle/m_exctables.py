# -*- coding: utf-8 -*-
# E-fmt for 3.11+ exception tables (C17)
from __future__ import print_function

import dis
import itertools
import marshal
import sys

VER = sys.version_info[:2]


def wv(val, first):
    """CPython's exception-table varint: 6-bit groups, most significant first, bit 6 = more follow, bit 7 = entry start"""
    groups = []
    while True:
        groups.append(val & 63)
        val >>= 6
        if not val:
            break
    groups.reverse()
    out = []
    for i, g in enumerate(groups):
        b = g
        if i < len(groups) - 1:
            b |= 64
        if first and i == 0:
            b |= 128
        out.append(b)
    return out


def entry(start, length, target, dl):
    return wv(start, True) + wv(length, False) + wv(target, False) + wv(dl, False)


def run(R, out, tier="quick"):
    if VER < (3, 11):
        out.put({"id": "__meta__", "tables": 0})
        return
    ns = {}
    exec(compile("def base():\n    return 1\n", "<exc>", "exec"), ns)
    base = ns["base"].__code__
    S = [0, 1, 63, 64, 4095, 4096, 2 ** 18]
    S2 = [0, 1, 64] if tier == "quick" else [0, 1, 64, 4096]
    n = 0

    def emit(tag, entries):
        tb = []
        for e in entries:
            tb += entry(*e)
        table = bytes(bytearray(tb))
        co = base.replace(co_exceptiontable=table)
        ref = [[e.start, e.end, e.target, e.depth, bool(e.lasti)] for e in dis._parse_exception_table(co)]
        out.put({"id": "exc:%s" % tag, "ver": list(VER), "table": R.C.hx(table), "payload": R.C.hx(marshal.dumps(co)), "entries": ref,
                 "raw": [list(e) for e in entries]})

    for e in itertools.product(S, repeat=4):
        emit("1:%s" % (e,), [e])
        n += 1
    singles = list(itertools.product(S2, repeat=4))
    for e1 in singles:
        for e2 in singles:
            emit("2:%s,%s" % (e1, e2), [e1, e2])
            n += 1
    emit("empty", [])
    out.put({"id": "__meta__", "tables": n + 1})
