# -*- coding: utf-8 -*-
# M-dis / M-lines / M-hdr: the small "boring" reference models (DESIGN 3.5).
# Python 2.7 / 3.6+ common subset.  They contain no failure behaviour.
from __future__ import print_function

import sys

PY2 = sys.version_info[0] == 2


def byte_at(code, i):
    c = code[i]
    return ord(c) if isinstance(c, str) else c


def mdis(code, P):
    """Decode raw co_code.  P: dict with
         wordcode (bool), have_arg (int), ext (EXTENDED_ARG opcode or None),
         caches (dict opcode -> number of inline cache code units, may be empty)
       yields (offset, op, arg_or_None, n_cache_units); EXTENDED_ARG prefixes are
       yielded as instructions of their own with the running value, as dis does;
       cache units are skipped."""
    n = len(code)
    i = 0
    ext = 0
    out = []
    caches = P.get("caches") or {}
    if P["wordcode"]:
        while i < n:
            op = byte_at(code, i)
            if op >= P["have_arg"]:
                arg = (byte_at(code, i + 1) if i + 1 < n else 0) | ext
                ext = (arg << 8) if op == P["ext"] else 0
            else:
                arg = None
                ext = 0
            nc = caches.get(op, 0)
            out.append((i, op, arg, nc))
            i += 2 + 2 * nc
    else:
        while i < n:
            op = byte_at(code, i)
            if op >= P["have_arg"]:
                arg = byte_at(code, i + 1) + byte_at(code, i + 2) * 256 + ext
                ext = arg * 65536 if op == P["ext"] else 0
                out.append((i, op, arg, 0))
                i += 3
            else:
                out.append((i, op, None, 0))
                i += 1
    return out


def mtarget(offset, op, arg, P):
    """Jump target of a jump instruction or None.  P additionally has
       jrel, jabs (sets of opcodes), backward (set of opcodes), scale (1 or 2),
       caches as above (the jump's own caches are skipped from 3.12)."""
    if arg is None:
        return None
    if op in P["jrel"]:
        width = 2 if P["wordcode"] else 3
        a = -arg if op in P.get("backward", ()) else arg
        nc = (P.get("caches") or {}).get(op, 0)
        return offset + width + a * P["scale"] + 2 * nc
    if op in P["jabs"]:
        return arg * P["scale"]
    return None


def mlabels(code, P):
    out = []
    for (off, op, arg, nc) in mdis(code, P):
        tg = mtarget(off, op, arg, P)
        if tg is not None and tg not in out:
            out.append(tg)
    return out


# ---------------------------------------------------------------- M-lines
def mlines_lnotab(lnotab, firstlineno, codelen, signed, cutoff):
    """dis.findlinestarts for lnotab formats.  signed: 3.6+.  cutoff: the
    3.8/3.9 rule that stops at the end of the code."""
    bs = [byte_at(lnotab, i) for i in range(len(lnotab))]
    lastlineno = None
    lineno = firstlineno
    addr = 0
    out = []
    for k in range(0, len(bs) - 1, 2):
        byte_incr, line_incr = bs[k], bs[k + 1]
        if byte_incr:
            if lineno != lastlineno:
                out.append((addr, lineno))
                lastlineno = lineno
            addr += byte_incr
            if cutoff and addr >= codelen:
                return out
        if signed and line_incr >= 0x80:
            line_incr -= 0x100
        lineno += line_incr
    if lineno != lastlineno:
        out.append((addr, lineno))
    return out


def mlines_310(linetable, firstlineno):
    """co_lines() of 3.10: list of (start, end, line_or_None)"""
    bs = [byte_at(linetable, i) for i in range(len(linetable))]
    line = firstlineno
    end = 0
    out = []
    for k in range(0, len(bs) - 1, 2):
        sdelta, ldelta = bs[k], bs[k + 1]
        if ldelta >= 128:
            ldelta -= 256
        start = end
        end = start + sdelta
        if ldelta == -128:
            if end != start:
                out.append((start, end, None))
            continue
        line += ldelta
        if end == start:
            continue
        out.append((start, end, line))
    return out


def starts_from_lines(colines):
    lastline = None
    out = []
    for (start, end, line) in colines:
        if line is not None and line != lastline:
            lastline = line
            out.append((start, line))
    return out


def m_offset2line(offset, linestarts):
    """line of the greatest start <= offset; 0 when there is none"""
    best = 0
    for (off, line) in linestarts:
        if off <= offset:
            best = line
        else:
            break
    return best


# ---------------------------------------------------------------- M-hdr
def mhdr(ver, flags):
    """header form of a pyc of bytecode version ver=(major, minor): returns
    ('ts',) | ('ts','size') | ('hash',) and the header length"""
    ver = tuple(ver[:2])
    if ver >= (3, 7):
        if flags & 1:
            return ("hash",), 16
        return ("ts", "size"), 16
    if ver >= (3, 3):
        return ("ts", "size"), 12
    return ("ts",), 8
