# -*- coding: utf-8 -*-
# E-prog: the version-tagged program grammar G (DESIGN Appendix A).
# Python 2.7 / 3.6+ common subset.  Pure data + deterministic enumeration.
from __future__ import print_function

LO = (0, 0)
HI = (9, 9)

# (name, min_version, max_version, star(interaction subset), source-of-one-statement)
T = []


def t(name, src, lo=LO, hi=HI, star=False):
    T.append((name, lo, hi, star, src))


# ---- constants -------------------------------------------------------------
for i, k in enumerate(
    [
        "0", "1", "-1", "255", "256", "65536", "2147483647", "2147483648", "-2147483649",
        "9223372036854775807", "9223372036854775808", "-9223372036854775809", "10**30",
        "1000000000000000000000000000000", "0.0", "-0.0", "1.5", "1e400", "-1e400", "1e-320",
        "1.7976931348623157e308", "1.5j", "-0.0j", "(1e400-1e400)", "''", "'a'", "'abc def'",
        "()", "(1,)", "(1, 'a', None, (2, 3))", "None", "True", "(1, 2.5, 'x', (), (None, True))",
        "'" + "a" * 300 + "'", "(1, 2, 3, 4, 5, 6, 7, 8, 9, 10)",
    ]
):
    t("const%d" % i, "x = %s" % k, star=(i in (1, 12, 16, 29)))
t("const_bytes", "x = b'\\xff\\x00a'", lo=(2, 6))
t("const_bytes_empty", "x = b''", lo=(2, 6))
t("const_ellipsis", "x = ...", lo=(3, 0))
t("const_ellipsis_sub", "x = d[...] if 0 else 1")
t("const_text_latin1", "x = u'\\xe9'", star=True)
t("const_text_bmp", "x = u'\\u20ac'")
t("const_text_astral", "x = u'\\U0001F600'")
t("const_text_mixed", "x = u'a\\xe9\\u20ac\\U0001F600z'")
t("const_text_surrogate", "x = '\\ud800'", lo=(3, 3))
t("const_text_long", "x = u'" + "\\xe9" * 300 + "'")
t("const_u_ascii", "x = u'abc'")
t("const_long2", "x = 10L", hi=(2, 7))
t("const_long2_big", "x = 12345678901234567890123L", hi=(2, 7))
t("const_backquote", "x = `a`", hi=(2, 7))
t("const_str_hi", "x = '\\xc3\\xa9\\xff'", hi=(2, 7))
t("const_str_utf8", "x = '\\xc3\\xa9'", hi=(2, 7))
t("frozenset_in", "x = a in {1, 2, 3}", lo=(3, 2), star=True)
t("frozenset_strs", "x = 'k' in {'k', 'l', 'm'}", lo=(3, 2))
t("tuple_in", "x = a in (1, 2, 3)")
t("big_tuple_256", "x = (" + ", ".join(str(i) for i in range(256)) + ")")
t("big_tuple_300", "x = (" + ", ".join(str(i) for i in range(300)) + ")")
t("big_tuple_shared", "def g1():\n    return (" + ", ".join(str(i) for i in range(260)) + ")\ndef g2():\n    return (" + ", ".join(str(i) for i in range(260)) + ")", star=True)
t("big_list_300", "x = [" + ", ".join("a" for i in range(300)) + "]")
t("many_names", "\n".join("n%d = %d" % (i, i) for i in range(300)))
t("many_consts", "def g():\n    return [" + ", ".join(str(1000 + i) for i in range(300)) + "]\nx = g()")
t("many_locals", "def g():\n" + "\n".join("    v%d = %d" % (i, i) for i in range(270)) + "\n    return v269 + v0\nx = g()")
t("shared_const_str", "x = 'shared'; y = ('shared', 'shared')\ndef g():\n    return 'shared'", star=True)
t("docstring_fn", "def g():\n    'doc string'\n    return 1\nx = g.__doc__")

t("frozenset_shared_two_fns", "def g1(p):\n    return p in {'alpha', 'beta', 'gamma'}\ndef g2(p):\n    if p in {'alpha', 'beta', 'gamma'}:\n        return 1\n    return p in {1.5, 2.5}\ndef g3(p):\n    return p in {1.5, 2.5} or p == 'gamma'\nx = (g1('alpha'), g2(2), g3(1.5))", lo=(3, 2), star=True)
t("tuple_shared_two_fns", "def g1():\n    return ('alpha', ('beta', 2.5), b'raw')\ndef g2():\n    return ('alpha', ('beta', 2.5), b'raw')\nx = g1() == g2()")
t("frozenset_case_variants", "x = 'y' in {'y', 'Y', 'yes', 'YES', 'Yes', 'n', 'N'}", lo=(3, 2))
t("frozenset_mixed_kinds", "x = a in {1, 'one', 2.5, None, (1, 2), b'one'}", lo=(3, 2))
# wave 6: constants sharing the writer's intern / reference tables with *fields* of earlier code objects
# ('' is a singleton: the empty line table of a lambda is the first occurrence, a later '' the back-reference)
t("empty_lnotab_then_empty_str", "f = lambda: 0\ns = ''\nt = b''")
t("empty_str_then_empty_lnotab", "s = ''\nf = lambda: 0\nt = (s, '', f)")
t("name_also_const", "def name_also_const():\n    return 'name_also_const', 'x', x\nx = 'x'")
t("bytes_in_set_display", "x = a in {b'GIF8', b'BM', b'\\xff\\xd8'}\ny = b'GIF8'", lo=(3, 2))
t("bytes_in_nested_tuple", "x = ((b'ab', 'ab'), [b'ab'], {b'k': b'v'}, {'k': b'ab'})")
# beyond the small bounds (wave 6): one statement longer than two lnotab continuation records, two long statements
# on one line, the same at line numbers above 256 (ints no longer cached, 3.10 tables split the line), generators
# starting at a high line, more than 255 parameters
_many_a = ", ".join("a" for i in range(300))
_half_a = ", ".join("a" for i in range(140))
t("long_statement", "x = [" + _many_a + "]\ny = 1")
t("long_statement_pair_one_line", "x = [" + _half_a + "]; y = [" + _half_a + "]\nz = 1")
t("high_line_long_statement", "\n" * 300 + "x = [" + _half_a + "]\ny = 1")
t("high_line_generator", "\n" * 300 + "def g(n):\n    for i in range(n):\n        yield i\nx = list(g(3))")
t("many_params", "def g(" + ", ".join("p%d" % i for i in range(260)) + "):\n    return p0, p259\nx = g", lo=(3, 7))
t("many_kwonly_params", "def g(q, *, " + ", ".join("k%d=%d" % (i, i) for i in range(258)) + "):\n    return q, k257\nx = g(1)", lo=(3, 7))
# wave 9: the variable of an inlined comprehension (3.12+: a hidden local) has the name of a *free* variable of the same
# function - two different slots of the localsplus table carry one name
t("comp_var_shadows_free", "def outer():\n    x = 1\n    z = 2\n    def f():\n        y = [x for x in range(3)]\n        return x, y, z\n    return f\nr = outer()()")
t("comp_var_shadows_free_cell", "def outer():\n    x = 1\n    z = 2\n    def f(w):\n        y = {x: (lambda: w) for x in range(2)}\n        return x, sorted(y), z, w\n    return f\nr = outer()(5)")
# wave 10 (own review of the language surface): constructs G did not have yet
t("cf_for_else", "for i in a:\n    if i:\n        break\nelse:\n    x = 1\ny = 2")
t("cf_try_else_finally", "try:\n    x = a\nexcept KeyError:\n    x = 1\nexcept (ValueError, TypeError) as e:\n    x = e\nelse:\n    x = 2\nfinally:\n    y = 3")
t("cf_nested_ifexp", "x = (a if b else c) if (d or e) and not f else (g if h else (i if j else k))")
t("cf_nested_boolop", "x = a and (b or c) and not (d and e or f) or g")
t("cf_if_const", "if 0:\n    x = 1\nelif 1:\n    x = 2\nelse:\n    x = 3\nwhile 0:\n    y = 1\nif __debug__:\n    z = 1")
t("cf_while_walrus", "while (n := len(a)) > 1:\n    a = a[1:]\nx = n", lo=(3, 8))
t("cf_break_continue_finally", "for i in a:\n    try:\n        if i == 1:\n            continue\n        if i == 2:\n            break\n    finally:\n        x = i\n    for j in b:\n        if j:\n            break\n    else:\n        continue\n    break", lo=(3, 8))
t("assign_chain_swap", "x = y = z = a\nx, y = y, x\nx, y, z = z, x, y\n(p, q), r = (x, y), z")
t("assign_star_targets", "a0, *rest = a\n*init, last = a\nfirst, *mid, last = a\nfor u, *v in [a]:\n    x = v", lo=(3, 0))
t("augassign_all", "x = a\nx += 1\nx -= 1\nx *= 2\nx //= 2\nx %= 5\nx **= 2\nx >>= 1\nx <<= 1\nx &= 7\nx ^= 1\nx |= 8\ny = 1.5\ny /= 2")
t("augassign_subscr_attr", "d = {}\nd['k'] = 1\nd['k'] += 2\nd['k'] **= 2\nclass O(object):\n    pass\no = O()\no.v = 1\no.v += 1\nl = [1, 2, 3]\nl[0:2] += [4]\nl[::2] = [0, 0]")
t("matmul", "class M(object):\n    def __matmul__(self, o):\n        return 1\n    def __imatmul__(self, o):\n        return self\nm = M()\nx = m @ m\nm @= m", lo=(3, 5))
t("del_forms", "d = {1: 2}\nl = [1, 2, 3, 4]\ndel d[1]\ndel l[0]\ndel l[0:1]\nclass O(object):\n    pass\no = O()\no.v = 1\ndel o.v\nq = r = 1\ndel q, r")
t("slices_ext", "l = list(range(10))\nx = l[1:2], l[:3], l[4:], l[:], l[::2], l[1:8:3], l[-1], l[::-1]\nclass S(object):\n    def __getitem__(self, k):\n        return k\ny = S()[1:2, ::3, ...]")
t("call_unpack_many", "def g(*p, **k):\n    return len(p), sorted(k)\nx = g(1, *[2, 3], 4, *(5,), k1=1, **{'k2': 2}, **{'k3': 3})", lo=(3, 5))
t("call_kw_16", "def g(**k):\n    return len(k)\nx = g(" + ", ".join("k%d=%d" % (i, i) for i in range(16)) + ")")
t("call_py2_star", "def g(*p, **k):\n    return len(p), sorted(k)\nx = g(1, 2, k1=1, *[3], **{'k2': 2})")
t("display_unpack", "x = [*a, 1, *a]\ny = (*a, 2)\nz = {*a, 3}\nw = {**{'p': 1}, 'q': 2, **{'r': 3}}", lo=(3, 5))
t("dict_big_literal", "x = {" + ", ".join("'k%d': a" % i for i in range(40)) + "}")
t("set_big_literal", "x = {" + ", ".join("a" for i in range(40)) + "}", lo=(2, 7))
t("fstring_specs", "v = 3.14159\nw = 'w'\nx = f'{v!r:>10} {v:{w}^{8}.{2}} {v=} {v!s} {v!a} {{lit}} {w + w!r}'", lo=(3, 8))
t("fstring_concat", "v = 1\nx = f'{v}' 'plain' f'{v:{v}}' f'{v + 1}{v}'", lo=(3, 6))
t("str_concat_fold", "x = 'a' 'b' + 'c' * 3\ny = (1 + 2) * 3 - 4 // 2\nz = -(-5)\nw = not True\nc = 1 + 2j\nt_ = (1, 2) + (3,)\ns_ = 'abc'[1]")
t("assert_msg", "try:\n    assert a, 'message %s' % (a,)\nexcept AssertionError as e:\n    x = str(e)")
t("lambda_defaults", "f = lambda p, q=1, *r, **s: (p, q, r, s)\ng = lambda: (lambda: a)()\nx = f(1, 2, 3, k=4), g()")
t("lambda_kwonly", "f = lambda p, *, q=1, r: (p, q, r)\nx = f(1, r=2)", lo=(3, 0))
t("gen_yield_expr", "def g():\n    got = yield 1\n    got2 = (yield got) or 5\n    yield got2\n    return\nit = g()\nx = [next(it), it.send('s'), it.send(None)]")
t("gen_return_value", "def g():\n    yield 1\n    return 7\ndef h():\n    r = yield from g()\n    yield r\nx = list(h())", lo=(3, 3))
t("gen_finally_return", "def g():\n    try:\n        yield 1\n        return 2\n    finally:\n        x = 3\nx = list(g())", lo=(3, 3))
t("gen_lambda_yield", "f = lambda: (yield)\nx = f", lo=(3, 0))
t("async_comprehensive", "import asyncio\nclass CM(object):\n    async def __aenter__(self):\n        return self\n    async def __aexit__(self, *e):\n        return False\nasync def agen():\n    yield 1\n    yield 2\nasync def main():\n    out = []\n    async with CM() as c1, CM() as c2:\n        async for v in agen():\n            out.append(v)\n        else:\n            out.append(0)\n    try:\n        await asyncio.sleep(0)\n    finally:\n        out.append(await asyncio.sleep(0, 9))\n    return out + [w async for w in agen()]\nx = asyncio.run(main())", lo=(3, 7))
t("with_tuple_target", "class CM(object):\n    def __enter__(self):\n        return (1, 2)\n    def __exit__(self, *e):\n        return True\nwith CM() as (p, q):\n    x = p + q\n    raise ValueError()\ny = 1")
t("with_parenthesized", "class CM(object):\n    def __enter__(self):\n        return 1\n    def __exit__(self, *e):\n        return False\nwith (CM() as p, CM() as q,):\n    x = p + q", lo=(3, 10))
t("cls_nested_closure", "def mk(v):\n    class K(object):\n        attr = v\n        def m(self):\n            return v, __class__\n        class Inner(object):\n            w = v\n    return K\nx = mk(1)().m()[0]", lo=(3, 0))
t("cls_decorated_kw", "def deco(c):\n    return c\nclass Meta(type):\n    def __new__(m, n, b, d, **kw):\n        return type.__new__(m, n, b, d)\n    def __init__(c, n, b, d, **kw):\n        pass\n@deco\nclass K(object, metaclass=Meta, flag=True):\n    pass\nx = K", lo=(3, 0))
t("global_in_class_fn", "def f():\n    global gg\n    gg = 1\n    class K(object):\n        global hh\n        hh = 2\n    return gg\nx = f()")
t("import_in_try", "try:\n    import no_such_module_xyz as m\nexcept ImportError:\n    m = None\ntry:\n    from os import path as p, sep\n    from os.path import (join, split)\nexcept ImportError:\n    p = None")
t("match_many", "def f(v):\n    match v:\n        case 0 | 1:\n            return 'small'\n        case [x, y, *rest] if x:\n            return rest\n        case {'k': k, **others}:\n            return others\n        case (1, 2) as pair:\n            return pair\n        case str(s) | bytes(s):\n            return s\n        case None:\n            return 0\n        case _:\n            return v\nx = [f(0), f([1, 2, 3]), f({'k': 1, 'j': 2}), f('s'), f(None), f(5.5)]", lo=(3, 10))
t("star_subscript", "class S(object):\n    def __getitem__(self, k):\n        return k\nx = S()[*a, 1]", lo=(3, 11))
t("except_star_return", "def f():\n    try:\n        raise ExceptionGroup('g', [ValueError(1), TypeError(2)])\n    except* ValueError as e:\n        x = e\n    except* TypeError:\n        x = 2\n    else:\n        x = 3\n    finally:\n        y = 4\n    return x\nx = f()", lo=(3, 11))
t("type_param_bounds", "def f[T: int, *Ts, **P](a: T) -> T:\n    return a\nclass C[T = int]:\n    pass\ntype A[T: (int, str)] = list[T]\nx = f(1)", lo=(3, 13))
t("annotations_module", "x: int = 1\ny: 'str'\nclass K(object):\n    z: int = 2\n    w: list\ndef f(a: int = 1, *b: str, c: float = 2.0, **d: bytes) -> None:\n    v: int = a\n    return v", lo=(3, 6))
t("print_py2_stmt", "import sys\nprint >>sys.stdout, 'a', 'b',\nprint\nprint 'c' % ()", hi=(2, 7))
t("exec_backtick_py2", "exec 'q = 1' in {}\nx = `a`\ntry:\n    raise ValueError, 'v'\nexcept ValueError, e:\n    y = e\nz = 1 <> 2\nw = 0777L", hi=(2, 7))
t("dict_set_comp_py27", "x = {i: i * 2 for i in a}\ny = {i for i in a}", lo=(2, 7))
t("long_if_chain_far", "\n".join("%s a == %d:\n    x = [a, a, a, a, a, a, a, a, a, a, a, a]" % ("if" if i == 0 else "elif", i) for i in range(30)) + "\nelse:\n    x = 0")
# wave 10: two functions whose co_varnames and co_cellvars + co_freevars are equal as tuples while the cell/free split differs
# (a parameter that is a cell vs. the variable of an inlined comprehension shadowing a free variable), in both orders
t("localsplus_same_names_split_differs", "def outer():\n    x = 1\n    z = 2\n    def p(x, y):\n        return (lambda: x), y, z\n    def v():\n        y = [x for x in range(3)]\n        return x, y, z\n    return p(1, 2)[1:], v()\nr = outer()")
t("localsplus_same_names_split_differs_rev", "def outer():\n    x = 1\n    z = 2\n    def v():\n        y = [x for x in range(3)]\n        return x, y, z\n    def p(x, y):\n        return (lambda: x), y, z\n    return v(), p(1, 2)[1:]\nr = outer()")
t("big_tuple_mixed_300", "x = (" + ", ".join("b'k%d', 'k%d', %d, %d.5" % (i, i, i, i) for i in range(75)) + ")")
t("big_consts_mixed_300", "def g():\n    return [" + ", ".join(("b'c%d'" if i % 3 == 0 else "'c%d'" if i % 3 == 1 else "%d") % i for i in range(300)) + ", a]\nx = g()")
t("set_unorderable_members", "x = a in {1j, -1j, 2j}\ny = a in {(None, 0), (0, None)}\nz = a in {None, 0, '0', 0.5, (0,), b'0'}", lo=(3, 2))
t("const_int_min_folded", "x = -9223372036854775807 - 1\ny = -2147483647 - 1\nz = 9223372036854775807 + 0\nw = (-9223372036854775807 - 1, 2147483647 + 1, -2147483648, -9223372036854775808)")
# hunting wave: constants beyond the int-to-str digit limit of newer hosts; small ints compared by identity
t("const_huge_int_folded", "x = 1 << 20000\ny = (1 << 20000, 'a')", hi=(2, 7))
t("const_huge_int_literal", "x = " + "9" * 5000 + "\ny = (" + "9" * 5000 + ", 'a')", hi=(3, 6))
t("ident_small_int", "x = 10\ny = x is int('10')\nz = 256\nw = z is int('256')\nv = (-5, 0, 1)[0] is int('-5')")
# hunting wave: statements whose operands are *parameters* and that come first in a function body (nothing precedes the operand
# loads; 3.13 fuses neighbouring LOAD_FASTs into one instruction) - the extended formatter looks backwards from each instruction
t("params_first_stmt_store_subscr", "def f(d, k, v):\n    d[k] = v\n    return d\nx = f({}, 1, 2)")
t("params_first_stmt_const_key_map", "def f(a, b, c):\n    return {'x': a, 'y': b, 'z': c}\nx = f(1, 2, 3)")
t("params_first_stmt_forms", "def f1(a, b):\n    return a[b]\ndef f2(a, b):\n    a.attr = b\ndef f3(a, b, c):\n    return a[b:c]\ndef f4(a, b):\n    del a[b]\ndef f5(a, b):\n    return a(b, b, k=a)\ndef f6(a, b):\n    return [a, b], (a, b), {a, b}, {a: b}\ndef f7(a, b):\n    a += b\n    return a if a else b\ndef f8(a, b):\n    return f'{a}{b!r:>{a}}'\nx = f1([1, 2], 0)", lo=(3, 6))
t("params_first_stmt_forms_py2", "def f1(a, b):\n    return a[b]\ndef f2(a, b):\n    a.attr = b\ndef f3(a, b, c):\n    return a[b:c]\ndef f4(a, b):\n    del a[b]\ndef f5(a, b):\n    return a(b, b, k=a)\ndef f6(a, b):\n    return [a, b], (a, b), {a: b}\ndef f7(a, b):\n    a += b\n    return a if a else b\nx = f1([1, 2], 0)")
t("const_equal_distinct", "x = (0.0, -0.0, 1, 1.0, True, (1, 2), (1.0, 2.0), 0, False, 0j)")

# ---- functions --------------------------------------------------------------
t("fn_pos", "def g(p, q):\n    return p + q\nx = g(1, 2)", star=True)
t("fn_defaults", "def g(p, q=2, r='s'):\n    return (p, q, r)\nx = g(1)", star=True)
t("fn_star", "def g(p, *args, **kw):\n    return (p, args, sorted(kw))\nx = g(1, 2, 3, k=4)", star=True)
t("fn_kwonly", "def g(p, *, k=1, m):\n    return (p, k, m)\nx = g(1, m=2)", lo=(3, 0), star=True)
t("fn_posonly", "def g(p, q, /, r):\n    return (p, q, r)\nx = g(1, 2, 3)", lo=(3, 8))
t("fn_annot", "def g(p: int, q: 'str' = 's') -> None:\n    return None\nx = sorted(g.__annotations__)", lo=(3, 0))
t("fn_lambda", "g = lambda p, q=1: p + q\nx = g(2)", star=True)
t("fn_nested2", "def g():\n    def h():\n        def k():\n            return 1\n        return k\n    return h\nx = g()()()")
t("fn_tuple_param", "def g((p, q), r):\n    return p + q + r\nx = g((1, 2), 3)", hi=(2, 7))
t("fn_decorators", "def deco(f):\n    return f\n@deco\n@deco\n@deco\ndef g():\n    return 1\nx = g()")
t("fn_global", "def g():\n    global gg\n    gg = 5\n    return gg\nx = g()")
t("fn_recursive", "def g(n):\n    return 1 if n < 2 else n * g(n - 1)\nx = g(5)")

# ---- closures ---------------------------------------------------------------
t("clo_param_cell", "def g(p, q):\n    def h():\n        return p\n    return h() + q\nx = g(1, 2)", star=True)
t("clo_local_cell", "def g():\n    v = 3\n    w = 4\n    def h():\n        return v\n    return h() + w\nx = g()", star=True)
t("clo_two_level", "def g(p):\n    def h():\n        def k():\n            return p\n        return k()\n    return h()\nx = g(7)", star=True)
t("clo_nonlocal", "def g():\n    v = 0\n    def h():\n        nonlocal v\n        v += 1\n        return v\n    return h() + h()\nx = g()", lo=(3, 0))
t("clo_class_super", "class K(object):\n    def m(self):\n        return 1\nclass L(K):\n    def m(self):\n        return super().m() + 1\nx = L().m()", lo=(3, 0), star=True)
t("clo_class_dunder", "class K(object):\n    def m(self):\n        return __class__\nx = K().m().__name__", lo=(3, 0))
t("clo_class_old_super", "class K(object):\n    def m(self):\n        return 1\nclass L(K):\n    def m(self):\n        return super(L, self).m() + 1\nx = L().m()")
t("clo_mixed", "def g(p, q, r):\n    s = p\n    def h(z):\n        return q + s + z\n    u = h(r)\n    return u\nx = g(1, 2, 3)")
t("clo_free_in_class", "def g(p):\n    class K(object):\n        v = p\n    return K.v\nx = g(4)")
t("clo_del_deref", "def g(p):\n    def h():\n        return p\n    y = h()\n    del p\n    return y\nx = g(1)", lo=(3, 2))

# ---- comprehensions ---------------------------------------------------------
t("comp_list", "x = [i * 2 for i in c]", star=True)
t("comp_list_if", "x = [i for i in c if i > 1]")
t("comp_set", "x = sorted({i for i in c})", star=True)
t("comp_dict", "x = sorted({i: i * i for i in c}.items())")
t("comp_gen", "x = list(i + 1 for i in c)", star=True)
t("comp_nested", "x = [(i, j) for i in c for j in c if i < j]")
t("comp_in_fn", "def g(p):\n    return [i + p for i in c]\nx = g(1)", star=True)
t("comp_nested_fn", "def g(p):\n    return [[i + j + p for j in c] for i in c]\nx = g(1)")
t("comp_async", "async def g():\n    return [i async for i in ag()]", lo=(3, 6))

# comprehension variables captured by inner scopes (3.12+ inlines comprehensions: hidden / cell locals)
t("comp_capture_lambda", "x = [(lambda: i)() for i in c]", star=True)
t("comp_capture_lambda_list", "fs = [lambda: i for i in c]\nx = [f() for f in fs]\ndel fs")
t("comp_capture_genexp", "x = [list(i + j for j in c) for i in c]")
t("comp_capture_dict", "x = sorted({i: (lambda: i)() for i in c}.items())")
t("comp_walrus", "x = [w := i for i in c]\ny = w", lo=(3, 8))
t("comp_class_var", "class K(object):\n    v = [1, 2]\n    w = [i for i in v]\nx = K.w")
t("comp_two_iters_cond", "x = [i * j for i in c if i for j in c if j > i]")
t("comp_in_lambda", "g = lambda p: [i + p for i in c]\nx = g(1)")
t("deco_factory", "def deco(arg):\n    def wrap(fn):\n        def inner(*a):\n            return (fn(*a), arg)\n        return inner\n    return wrap\n@deco(5)\ndef g(p):\n    return p\nx = g(1)", star=True)
t("clo_three_deep", "def g(p, q):\n    r = q\n    def h(s):\n        t_ = s\n        def k(u):\n            return (p, r, t_, u)\n        return k\n    return h(1)(2)\nx = g(3, 4)")
t("clo_default_capture", "def g(p):\n    def h(q=p):\n        return (lambda: (p, q))()\n    return h()\nx = g(1)")
t("clo_global_nonlocal", "gg = 0\ndef g():\n    v = 1\n    def h():\n        global gg\n        nonlocal v\n        gg += 1\n        v += 1\n        return (gg, v)\n    return h()\nx = g()", lo=(3, 0))
t("fn_all_kinds", "def g(p, q, /, r, *a, s=1, t_, **k):\n    return (p, q, r, a, s, t_, sorted(k))\nx = g(1, 2, 3, 4, t_=5, z=6)", lo=(3, 8), star=True)
t("fn_posonly_defaults", "def g(p, q=2, /, r=3):\n    return (p, q, r)\nx = g(1)", lo=(3, 8))
t("type_param_default", "def g[T = int](p: T) -> T:\n    return p\nx = g(1)", lo=(3, 13))
t("type_param_class", "class K[T]:\n    def m(self, p: T) -> T:\n        return p\nx = K().m(1)", lo=(3, 12))

# ---- control flow -----------------------------------------------------------
t("cf_if", "if a:\n    x = 1\nelif b:\n    x = 2\nelse:\n    x = 3", star=True)
t("cf_while", "x = 0\nwhile x < 10:\n    x += 1\n    if x == 3:\n        continue\n    if x == 7:\n        break\nelse:\n    x = -1", star=True)
t("cf_for", "x = 0\nfor i in c:\n    x += i\nelse:\n    x += 100", star=True)
t("cf_for_nested", "x = 0\nfor i in c:\n    for j in c:\n        if i == j:\n            continue\n        x += i * j\n    if x > 1000:\n        break")
t("cf_ifexp", "x = 1 if a else 2")
t("cf_boolop", "x = a and b or c", star=True)
t("cf_chain_cmp", "x = 0 < a < b <= 3")
for i, op in enumerate(["<", "<=", "==", "!=", ">", ">=", "in", "not in", "is", "is not"]):
    t("cf_cmp%d" % i, "x = a %s c" % op if "in" in op else "x = a %s b" % op, star=(i in (0, 7, 9)))
t("cf_cmp_ne2", "x = a <> b", hi=(2, 7))
t("cf_assert", "assert a, 'msg'\nx = 1")
t("cf_not", "x = not a")
t("cf_cmp_if", "if a < b:\n    x = 1\nelse:\n    x = 2", star=True)
t("cf_while_true", "x = 0\nwhile True:\n    x += 1\n    if x > 3:\n        break")
t("cf_match", "match a:\n    case 1:\n        x = 'one'\n    case [p, q]:\n        x = p\n    case {'k': v}:\n        x = v\n    case _:\n        x = None", lo=(3, 10))
t("cf_return_in_loop", "def g():\n    for i in c:\n        if i == 2:\n            return i\n    return -1\nx = g()", star=True)
t("cf_long_if_chain", "x = 0\n" + "\n".join("if a == %d:\n    x += %d" % (i, i) for i in range(40)))

# ---- exceptions ---------------------------------------------------------------
t("ex_try", "try:\n    x = 1 // 0\nexcept ZeroDivisionError:\n    x = 2\nelse:\n    x = 3\nfinally:\n    y = 4", star=True)
t("ex_try_as", "try:\n    x = d['zz']\nexcept KeyError as e:\n    x = type(e).__name__", star=True)
t("ex_nested", "try:\n    try:\n        x = 1 // 0\n    finally:\n        y = 1\nexcept Exception:\n    x = 5")
t("ex_raise_from", "try:\n    try:\n        1 // 0\n    except Exception as e:\n        raise ValueError('v') from e\nexcept ValueError as f:\n    x = type(f.__cause__).__name__", lo=(3, 0))
t("ex_raise2", "try:\n    raise ValueError, 'v'\nexcept ValueError, e:\n    x = str(e)", hi=(2, 7))
t("ex_star", "try:\n    raise ExceptionGroup('g', [ValueError(1)])\nexcept* ValueError as e:\n    x = 1", lo=(3, 11))
t("ex_with", "class CM(object):\n    def __enter__(self):\n        return 1\n    def __exit__(self, *a):\n        return False\nwith CM() as w:\n    x = w", star=True)
t("ex_with_nested", "class CM(object):\n    def __enter__(self):\n        return 1\n    def __exit__(self, *a):\n        return False\nwith CM() as w:\n    with CM() as v:\n        x = w + v")
t("ex_with_multi", "class CM(object):\n    def __enter__(self):\n        return 1\n    def __exit__(self, *a):\n        return False\nwith CM() as w, CM() as v:\n    x = w + v", lo=(2, 7))
t("ex_try_in_fn", "def g():\n    try:\n        return 1 // 0\n    except ZeroDivisionError:\n        return 2\n    finally:\n        pass\nx = g()", star=True)
t("ex_try_loop", "x = 0\nfor i in c:\n    try:\n        if i == 2:\n            continue\n        x += 1\n    finally:\n        x += 10")
t("ex_bare_raise", "try:\n    try:\n        1 // 0\n    except ZeroDivisionError:\n        raise\nexcept Exception:\n    x = 1")

t("ex_finally_return_loop", "def g():\n    for i in c:\n        try:\n            if i == 2:\n                return i\n            if i == 1:\n                continue\n        finally:\n            pass\n    return -1\nx = g()", star=True)
t("ex_finally_break", "x = 0\nfor i in c:\n    try:\n        if i == 2:\n            break\n    finally:\n        x += 1")
t("ex_with_return", "class CM(object):\n    def __enter__(self):\n        return 1\n    def __exit__(self, *a):\n        return False\ndef g():\n    with CM() as w:\n        return w\nx = g()")
t("ex_except_multi", "try:\n    x = d['zz']\nexcept (KeyError, IndexError) as e:\n    x = 1\nexcept ValueError:\n    x = 2\nexcept Exception:\n    x = 3")
t("ex_star_multi", "try:\n    raise ExceptionGroup('g', [ValueError(1), KeyError(2)])\nexcept* ValueError:\n    x = 1\nexcept* KeyError:\n    y = 2", lo=(3, 11))
t("match_class_guard", "class P(object):\n    __match_args__ = ('u', 'v')\n    def __init__(self, u, v):\n        self.u = u\n        self.v = v\nmatch P(1, 2):\n    case P(u=1, v=w) if w > 5:\n        x = 'big'\n    case P(1, w) | P(w, 1):\n        x = w\n    case [1, *rest] | (2, *rest):\n        x = rest\n    case {'k': 1, **kw}:\n        x = kw\n    case str() | None:\n        x = 's'", lo=(3, 10))

# ---- generators / async -------------------------------------------------------
t("gen_yield", "def g():\n    yield 1\n    yield 2\nx = list(g())", star=True)
t("gen_yield_loop", "def g(n):\n    for i in range(n):\n        y = yield i\nx = list(g(3))", star=True)
t("gen_yield_from", "def g():\n    yield from c\n    return 5\nx = list(g())", lo=(3, 3), star=True)
t("gen_async_def", "async def g():\n    return 1\nx = g.__name__", lo=(3, 5))
t("gen_await", "async def h():\n    return 1\nasync def g():\n    return await h()\nx = g.__name__", lo=(3, 5), star=True)
t("gen_async_for", "async def g(it):\n    r = 0\n    async for i in it:\n        r += i\n    else:\n        r -= 1\n    return r\nx = g.__name__", lo=(3, 5), star=True)
t("gen_async_with", "async def g(cm):\n    async with cm as w:\n        return w\nx = g.__name__", lo=(3, 5))
t("gen_async_gen", "async def g():\n    yield 1\n    await h()\n    yield 2\nx = g.__name__", lo=(3, 6))
t("gen_async_genexp", "async def g(it):\n    return (i async for i in it)\nx = g.__name__", lo=(3, 6))
t("gen_yield_try", "def g():\n    try:\n        yield 1\n    finally:\n        yield 2\nx = list(g())")

t("gen_async_comp_capture", "async def g(it):\n    return [(lambda: i) async for i in it]\nx = g.__name__", lo=(3, 6))
t("gen_send_throw", "def g():\n    try:\n        v = yield 1\n        while v:\n            v = yield v\n    except ValueError:\n        yield -1\nit = g()\nx = (next(it), it.send(5), it.throw(ValueError))")
t("gen_async_with_return", "async def g(cm):\n    async with cm as w:\n        for i in w:\n            if i:\n                return i\n    return None\nx = g.__name__", lo=(3, 5))

# ---- calls / attrs ----------------------------------------------------------
t("call_mixed", "def g(*p, **k):\n    return (p, sorted(k))\nx = g(a, *c, k=1, **d)", star=True)
t("call_method", "x = 'abc'.upper().lower()", star=True)
t("call_kw", "x = dict(p=1, q=2)")
t("call_many", "def g(*p):\n    return len(p)\nx = g(" + ", ".join("a" for i in range(40)) + ")")
t("attr_chain", "import sys\nx = sys.version_info.major.__class__.__name__", star=True)
t("attr_store", "class K(object):\n    pass\nk = K()\nk.v = 1\nk.v += 2\nx = k.v\ndel k.v")
t("fstring", "x = f'{a!r:>10} {b} {c!s}'", lo=(3, 6), star=True)
t("fstring_nested", "x = f'{a:{b}}'", lo=(3, 6))
t("walrus", "if (w := a + 1) > 1:\n    x = w", lo=(3, 8))
t("star_unpack", "p, *q = c\nx = (p, q)", lo=(3, 0))
t("unpack", "p, q, r = c\nx = p + q + r", star=True)
t("star_call_build", "x = [*c, *c]", lo=(3, 5))
t("dict_merge", "x = {**d, 'z': 1}", lo=(3, 5))
t("slices", "x = (c[1:], c[:1], c[::2], c[0:2:1], c[:])", star=True)
t("slice_store", "y = list(c)\ny[0:1] = [9]\ndel y[1:2]\nx = y")
t("augassign", "x = 1\nx += 2\nx *= 3\nx -= 1\nx //= 2\nx **= 2\nx %= 7\nx <<= 1\nx >>= 1\nx &= 7\nx |= 8\nx ^= 1", star=True)
t("binops", "x = (a + b - a * b) // b % 5 ** 2 << 1 >> 1 & 255 | 1 ^ 2")
t("unops", "x = (-a, +a, ~a, not a)")
t("del_name", "x = 1\ny = 2\ndel y")
t("import_as", "import os.path as osp\nx = osp.__name__", star=True)
t("import_from", "from os.path import (join, split)\nx = join.__name__", star=True)
t("import_star_fn", "import os, sys\nx = os.sep")
t("import_rel", "def g():\n    from . import zz\nx = 1", lo=(2, 5))
t("print_stmt", "import sys\nprint >>sys.stdout, a, b\nprint a,\nprint", hi=(2, 7))
t("exec_stmt", "exec 'y = 1' in d\nx = d['y']", hi=(2, 7))
t("print_fn", "print(a, b)")
t("subscr", "x = d['k']\nd['j'] = x\ndel d['j']")
t("build_map", "x = {'p': 1, 'q': 2, 'r': a}")
t("build_set", "x = sorted({a, b})", lo=(2, 7))
t("str_format", "x = '%s-%d' % (a, b)")
t("cls_body", "class K(object):\n    'doc'\n    v = 1\n    def m(self):\n        return self.v\n    @staticmethod\n    def s():\n        return 2\nx = K().m() + K.s()", star=True)
t("cls_meta", "class K(object, metaclass=type):\n    pass\nx = K.__name__", lo=(3, 0))
t("cls_old", "class K:\n    pass\nx = K.__name__")
t("global_attr_call", "import os\ndef g():\n    return os.path.join('p', 'q')\nx = g()", star=True)
t("method_call_fn", "def g(p):\n    return p.upper().strip()\nx = g('s')", star=True)
t("ret_none", "def g():\n    pass\nx = g()")
t("type_params", "def g[T](p: T) -> T:\n    return p\nx = g(1)", lo=(3, 12))
t("type_alias", "type A = int\nx = A.__name__", lo=(3, 12))


# ---- line structure -----------------------------------------------------------
for gap in (1, 127, 128, 129, 255, 256, 300):
    t("line_gap_%d" % gap, "x = 1" + "\n" * gap + "y = 2", star=(gap in (128, 256)))
    t("line_gap_fn_%d" % gap, "def g():\n    p = 1" + "\n" * gap + "    q = 2\n    return p + q\nx = g()")
t("line_neg", "def g(p, q):\n    return (p,\n            q)\nx = g(\n    a,\n    b)", star=True)
t("line_neg_big", "def g(*p):\n    return p\nx = g(a," + "\n" * 140 + "    b)", star=True)
t("line_neg_huge", "def g(*p):\n    return p\nx = g(a," + "\n" * 300 + "    b)")
t("line_cols_wide", "x = (" + " " * 140 + "a + b)")
t("line_cols_wide_multi", "x = (a +" + " " * 300 + "b + \n c)")
t("line_long_body", "x = 0\n" + "\n".join("x = x + a * %d" % i for i in range(60)) + "\ny = x")
t("line_dead_code", "def g():\n    return 1\n    x = 2\n    return x\nx = g()")
t("line_same", "x = 1; y = 2; z = 3")
t("line_multiline_str", "x = '''l1\nl2\nl3'''\ny = 1")
t("line_lambda_multi", "g = (lambda p:\n     p +\n     1)\nx = g(1)")
t("line_far_jump", "x = 0\nif a:\n" + "\n".join("    x += %d" % i for i in range(80)) + "\nelse:\n    x = 5", star=True)
t("line_far_loop", "x = 0\nfor i in c:\n" + "\n".join("    x += %d" % i for i in range(80)) + "\ny = x", star=True)
t("line_far_while", "x = 0\nwhile x < 5:\n" + "\n".join("    x += a + %d" % i for i in range(80)))
t("line_far_try", "try:\n" + "\n".join("    x = a + %d" % i for i in range(80)) + "\nexcept Exception:\n    x = 0\nfinally:\n    y = 1")

PROLOGUE = "a = 1\nb = 2\nc = [1, 2, 3]\nd = {'k': 1}\n"
EPILOGUE = "\nprint(sorted((k, repr(v)[:60]) for k, v in list(globals().items()) if k[:2] != '__' and type(v) in (int, str, tuple, list, float, bool, type(None))))\n"

SCOPES = ["module", "function", "class", "nested"]


def indent(src, n):
    pad = " " * n
    out = []
    instr = False
    for line in src.split("\n"):
        # do not indent the continuation lines of a triple-quoted literal
        out.append(line if (instr or not line) else pad + line)
        if line.count("'''") % 2 == 1:
            instr = not instr
    return "\n".join(out)


# programs that must start with a __future__ import (compiler flags CO_FUTURE_*): module scope only
FUTURE = [
    ("future_annotations", (3, 7), HI, "from __future__ import annotations\ndef g(p: int) -> str:\n    return str(p)\nx = g(1)\ny = g.__annotations__['p']"),
    ("future_barry", (3, 1), HI, "from __future__ import barry_as_FLUFL\nx = 1 <> 2"),
    ("future_py2_all", (2, 6), (2, 7), "from __future__ import division, print_function, unicode_literals, absolute_import\nx = 1 / 2\ny = 'text'\nprint(x, y)"),
    ("future_generator_stop", (3, 5), HI, "from __future__ import generator_stop\ndef g():\n    yield 1\nx = list(g())"),
]


def wrap(scope, body):
    if scope == "module":
        return PROLOGUE + body + "\n" + EPILOGUE
    if scope == "function":
        return (PROLOGUE + "def scope_f():\n" + indent(body, 4) + "\n    return 0\n"
                "try:\n    scope_f()\nexcept Exception as e:\n    print(type(e).__name__)\n" + EPILOGUE)
    if scope == "class":
        return (PROLOGUE + "try:\n    class ScopeK(object):\n" + indent(body, 8) +
                "\nexcept Exception as e:\n    print(type(e).__name__)\n" + EPILOGUE)
    if scope == "nested":
        return (PROLOGUE + "def scope_o(po):\n    lo = po\n    def scope_i(pi):\n        li = (po, lo, pi)\n" +
                indent(body, 8) + "\n        return li\n    return scope_i(po)\n"
                "try:\n    scope_o(1)\nexcept Exception as e:\n    print(type(e).__name__)\n" + EPILOGUE)
    raise ValueError(scope)


def templates_for(ver):
    ver = tuple(ver[:2])
    return [x for x in T if x[1] <= ver <= x[2]]


def enumerate_programs(ver, k, scopes=None):
    """All programs with exactly <= k statements.  k=1: every template x every
    scope; k=2: ordered pairs over the starred subset x {module, function}."""
    tl = templates_for(ver)
    sc = scopes or SCOPES
    for (name, lo, hi, star, src) in tl:
        for s in sc:
            yield ("%s@%s" % (name, s), wrap(s, src))
    for (name, lo, hi, src) in FUTURE:
        if lo <= ver <= hi:
            lines = src.split("\n")
            yield ("%s@module" % name, lines[0] + "\n" + PROLOGUE + "\n".join(lines[1:]) + "\n" + EPILOGUE)
    if k >= 2:
        # every unordered pair of templates together in one code object: the templates (long bodies excepted) are laid on
        # a p x p grid, p prime; the p*(p+1) lines of the affine plane over GF(p) meet every pair of grid points exactly
        # once, so p*(p+1) concatenated programs cover all co-occurrences (an exhaustive pairwise design, not a sample)
        light = [x for x in tl if len(x[4]) <= 700]
        pr = next(q for q in (13, 17, 19, 23, 29, 31) if q * q >= len(light))
        grid = {}
        for idx, x in enumerate(light):
            grid[(idx // pr, idx % pr)] = x
        lines = []
        for m in range(pr):
            for c in range(pr):
                lines.append([(i, (m * i + c) % pr) for i in range(pr)])
        for c in range(pr):
            lines.append([(c, j) for j in range(pr)])
        for li, pts in enumerate(lines):
            members = [grid[q] for q in pts if q in grid]
            if len(members) < 2:
                continue
            body = "\n".join(x[4] for x in members)
            for s in ("module", "function"):
                yield ("design%03d[%s]@%s" % (li, "+".join(x[0] for x in members), s), wrap(s, body))
        st = [x for x in tl if x[3]]
        for x1 in st:
            for x2 in st:
                body = x1[4] + "\n" + x2[4]
                for s in ("module", "function"):
                    yield ("%s+%s@%s" % (x1[0], x2[0], s), wrap(s, body))
