# -*- coding: utf-8 -*-
# Canonical, JSON-able, type-tagged value trees (DESIGN Appendix D).
# Python 2.7 / 3.6+ common subset: imported by the oracle under every reference
# interpreter and by the host side (with the xdis adapter of vlib/xcanon.py).
from __future__ import print_function

import binascii
import json
import struct
import sys
import types

PY2 = sys.version_info[0] == 2
if PY2:
    text_type = unicode  # noqa: F821
    bytes_type = str
    long_type = long  # noqa: F821
else:
    text_type = str
    bytes_type = bytes
    long_type = int


def hx(b):
    if isinstance(b, bytearray):
        b = bytes(b)
    return binascii.hexlify(b).decode("ascii")


def unhx(s):
    return binascii.unhexlify(s.encode("ascii"))


def f2hex(f):
    return hx(struct.pack(">d", f))


def cps(u):
    """code points of a text object (py2 wide build or py3)"""
    return [ord(c) for c in u]


CODE_FIELDS_ALL = [
    "co_argcount",
    "co_posonlyargcount",
    "co_kwonlyargcount",
    "co_nlocals",
    "co_stacksize",
    "co_flags",
    "co_code",
    "co_consts",
    "co_names",
    "co_varnames",
    "co_freevars",
    "co_cellvars",
    "co_filename",
    "co_name",
    "co_qualname",
    "co_firstlineno",
    "co_lnotab",
    "co_linetable",
    "co_exceptiontable",
]


def code_fields(ver):
    """ordered field list a code object of bytecode version `ver` (major, minor)
    carries in its marshalled form"""
    ver = tuple(ver[:2])
    out = []
    for f in CODE_FIELDS_ALL:
        if f == "co_posonlyargcount" and ver < (3, 8):
            continue
        if f == "co_kwonlyargcount" and ver < (3, 0):
            continue
        if f == "co_qualname" and ver < (3, 11):
            continue
        if f == "co_lnotab" and ver >= (3, 10):
            continue
        if f == "co_linetable" and ver < (3, 10):
            continue
        if f == "co_exceptiontable" and ver < (3, 11):
            continue
        if f in ("co_freevars", "co_cellvars") and ver < (2, 1):
            continue
        if f in ("co_firstlineno", "co_lnotab", "co_stacksize") and ver < (1, 5):
            continue
        if f in ("co_argcount", "co_nlocals", "co_flags", "co_varnames") and ver < (1, 3):
            continue
        out.append(f)
    return out


_PATH = []


def istr(x):
    """text of an int for the canonical tree: decimal for everyday values, hexadecimal for big ones (interpreters with the
    int-to-str digit limit refuse str() of an int with more than 4300 digits; hex() has no limit)"""
    x = int(x)
    if -10 ** 18 < x < 10 ** 18:
        return str(x)
    return hex(x).rstrip("L")


def canon(x, _depth=0):
    """canonical tree of a *native* object of the running interpreter"""
    if x is None:
        return {"t": "none"}
    if x is True or x is False:
        return {"t": "bool", "v": bool(x)}
    if x is Ellipsis:
        return {"t": "ellipsis"}
    if x is StopIteration:
        return {"t": "stopiter"}
    t = type(x)
    if t is int:
        return {"t": "int", "v": istr(x)}
    if PY2 and t is long_type:
        return {"t": "long2", "v": istr(x)}
    if t is float:
        return {"t": "float", "v": f2hex(x)}
    if t is complex:
        return {"t": "complex", "v": [f2hex(x.real), f2hex(x.imag)]}
    if t is bytes_type:
        return {"t": "str2" if PY2 else "bytes", "v": hx(x)}
    if t is text_type:
        return {"t": "text", "v": cps(x)}
    if t is tuple:
        return {"t": "tuple", "v": [canon(e, _depth + 1) for e in x]}
    if t is list:
        # a list (or dict) may contain itself (the marshal format can express that from 3.4 on): a reference back to a
        # container that is still being walked is written as the distance up the path
        if id(x) in _PATH:
            return {"t": "cycle", "v": len(_PATH) - _PATH.index(id(x))}
        _PATH.append(id(x))
        try:
            return {"t": "list", "v": [canon(e, _depth + 1) for e in x]}
        finally:
            _PATH.pop()
    if t is set or t is frozenset:
        items = [canon(e, _depth + 1) for e in x]
        items.sort(key=lambda d: json.dumps(d, sort_keys=True))
        return {"t": "set" if t is set else "frozenset", "v": items}
    if t is dict:
        if id(x) in _PATH:
            return {"t": "cycle", "v": len(_PATH) - _PATH.index(id(x))}
        _PATH.append(id(x))
        try:
            items = [[canon(k, _depth + 1), canon(v, _depth + 1)] for k, v in x.items()]
        finally:
            _PATH.pop()
        items.sort(key=lambda kv: json.dumps(kv[0], sort_keys=True))
        return {"t": "dict", "v": items}
    if t is types.CodeType:
        ver = sys.version_info[:2]
        d = {}
        for f in code_fields(ver):
            d[f] = canon(getattr(x, f), _depth + 1)
        return {"t": "code", "v": d}
    raise TypeError("cannot canonicalise %r" % (t,))


def walk_codes(co):
    """depth-first, pre-order list of a native code object and its nested ones"""
    out = [co]
    for c in co.co_consts:
        if isinstance(c, types.CodeType):
            out.extend(walk_codes(c))
    return out


def jdump(o):
    return json.dumps(o, sort_keys=True, separators=(",", ":"))
